//! M-text: the symbol tables of the card index grammar. No ckc-rs.
use super::card;

/// rank number 0..12 of a rank symbol
pub fn rank_of(c: char) -> Option<u32> {
    Some(match c {
        'A' | 'a' => 12,
        'K' | 'k' => 11,
        'Q' | 'q' => 10,
        'J' | 'j' => 9,
        'T' | 't' | '0' => 8,
        '9' => 7,
        '8' => 6,
        '7' => 5,
        '6' => 4,
        '5' => 3,
        '4' => 2,
        '3' => 1,
        '2' => 0,
        _ => return None,
    })
}

/// suit number 0 clubs .. 3 spades of a suit symbol
pub fn suit_of(c: char) -> Option<u32> {
    Some(match c {
        'S' | 's' | '♠' | '♤' => 3,
        'H' | 'h' | '♥' | '♡' => 2,
        'D' | 'd' | '♦' | '♢' => 1,
        'C' | 'c' | '♣' | '♧' => 0,
        _ => return None,
    })
}

pub const RANK_SYMBOLS: &str = "AaKkQqJjTt098765432";
pub const SUIT_SYMBOLS: &str = "SsHhDdCc♠♥♦♣♤♡♢♧";

/// card word of a token: looks at the first two chars only
pub fn card_of_token(tok: &str) -> u32 {
    let mut it = tok.chars();
    let (a, b) = match (it.next(), it.next()) {
        (Some(a), Some(b)) => (a, b),
        _ => return 0,
    };
    match (rank_of(a), suit_of(b)) {
        (Some(r), Some(s)) => card::word(r, s),
        _ => 0,
    }
}

/// The separators generated hand texts use; all are whitespace under both the Unicode and the
/// ASCII definition.
pub const SEPARATORS: [char; 5] = [' ', '\t', '\n', '\r', '\x0C'];

/// The two standard definitions of "whitespace". The statement says "whitespace-separated"
/// without choosing; the harness probes which one the crate implements and then requires that
/// single definition from every parser on every text.
#[derive(Clone, Copy, Debug, PartialEq, Eq)]
pub enum WsDef {
    /// Unicode White_Space (char::is_whitespace): includes U+000B, U+0085, U+00A0, U+2003, ...
    Unicode,
    /// ASCII whitespace (char::is_ascii_whitespace): space, tab, LF, FF, CR only
    Ascii,
}

impl WsDef {
    pub fn is_ws(self, c: char) -> bool {
        match self {
            WsDef::Unicode => c.is_whitespace(),
            WsDef::Ascii => c.is_ascii_whitespace(),
        }
    }
}

/// maximal runs of non-whitespace characters under the given definition
pub fn tokens_with(def: WsDef, text: &str) -> Vec<&str> {
    text.split(|c| def.is_ws(c)).filter(|t| !t.is_empty()).collect()
}

/// Tokens of a text that contains no whitespace other than SEPARATORS.
pub fn tokens(text: &str) -> Vec<&str> {
    text.split(|c| SEPARATORS.contains(&c)).filter(|t| !t.is_empty()).collect()
}

/// true when the text contains a character that some definition of whitespace accepts but that
/// is not one of SEPARATORS (the model makes no claim about tokenisation then).
pub fn has_exotic_whitespace(text: &str) -> bool {
    text.chars().any(|c| (c.is_whitespace() || c == '\x0B' || c == '\u{1C}' || c == '\u{1D}' || c == '\u{1E}' || c == '\u{1F}') && !SEPARATORS.contains(&c))
}

pub fn self_check() -> Result<(), String> {
    if RANK_SYMBOLS.chars().count() != 19 || SUIT_SYMBOLS.chars().count() != 16 {
        return Err("symbol counts".into());
    }
    for c in RANK_SYMBOLS.chars() {
        if rank_of(c).is_none() {
            return Err(format!("rank symbol {}", c));
        }
    }
    for c in SUIT_SYMBOLS.chars() {
        if suit_of(c).is_none() {
            return Err(format!("suit symbol {}", c));
        }
    }
    if card_of_token("A♠") != card::word(12, 3) || card_of_token("2c") != card::word(0, 0) || card_of_token("0h junk") != card::word(8, 2) {
        return Err("token examples".into());
    }
    Ok(())
}
