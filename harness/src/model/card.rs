//! M-card: the documented bit layout of a card word. Nothing in here uses ckc-rs.
//!
//! ```txt
//! +--------+--------+--------+--------+
//! |mmmbbbbb|bbbbbbbb|SHDCrrrr|xxpppppp|
//! +--------+--------+--------+--------+
//! ```
//! rank r = 0 (deuce) .. 12 (ace); suit s = 0 clubs, 1 diamonds, 2 hearts, 3 spades.
//!
//! Two index systems are used by the harness:
//! * `ci` ("card index", rank-major) = r*4 + s, 0..52 — ascending ci = ascending card word, so a
//!   subset enumerated ascending is already rank-sorted; used by all enumerators.
//! * `dp` ("deck position", suit-major) = (3-s)*13 + (12-r) — A♠ first, 2♣ last — the order of
//!   the deck and of the 64-bit set form (bit 51-dp).

pub const PRIMES: [u32; 13] = [2, 3, 5, 7, 11, 13, 17, 19, 23, 29, 31, 37, 41];
pub const RANK_CHARS: [char; 13] = ['2', '3', '4', '5', '6', '7', '8', '9', 'T', 'J', 'Q', 'K', 'A'];
pub const SUIT_GLYPHS: [char; 4] = ['♣', '♦', '♥', '♠'];
pub const SUIT_LETTERS: [char; 4] = ['C', 'D', 'H', 'S'];

pub const PAIR: u32 = 1 << 29;
pub const TRIPS: u32 = 1 << 30;
pub const QUADS: u32 = 1 << 31;

#[inline]
pub const fn word(r: u32, s: u32) -> u32 {
    PRIMES[r as usize] | (r << 8) | (1 << (12 + s)) | (1 << (16 + r))
}

const fn build_by_ci() -> [u32; 52] {
    let mut a = [0u32; 52];
    let mut i = 0;
    while i < 52 {
        a[i] = word((i / 4) as u32, (i % 4) as u32);
        i += 1;
    }
    a
}

const fn build_deck() -> [u32; 52] {
    let mut a = [0u32; 52];
    let mut i = 0;
    while i < 52 {
        let s = 3 - (i / 13) as u32;
        let r = 12 - (i % 13) as u32;
        a[i] = word(r, s);
        i += 1;
    }
    a
}

/// Card words by rank-major card index.
pub const BY_CI: [u32; 52] = build_by_ci();
/// Card words in deck order (A♠ … 2♠, A♥ … 2♥, A♦ … 2♦, A♣ … 2♣).
pub const DECK: [u32; 52] = build_deck();

#[inline]
pub fn ci_to_dp(ci: usize) -> usize {
    let r = ci / 4;
    let s = ci % 4;
    (3 - s) * 13 + (12 - r)
}

#[inline]
pub fn dp_to_ci(dp: usize) -> usize {
    let s = 3 - dp / 13;
    let r = 12 - dp % 13;
    r * 4 + s
}

/// `Some((r, s))` iff `w` is exactly one of the 52 card words.
#[inline]
pub fn decode(w: u32) -> Option<(u32, u32)> {
    let r = (w >> 8) & 0xF;
    if r > 12 {
        return None;
    }
    let sb = (w >> 12) & 0xF;
    let s = match sb {
        1 => 0,
        2 => 1,
        4 => 2,
        8 => 3,
        _ => return None,
    };
    if word(r, s) == w {
        Some((r, s))
    } else {
        None
    }
}

#[inline]
pub fn is_card(w: u32) -> bool {
    decode(w).is_some()
}

/// rank-major card index of a card word
#[inline]
pub fn ci_of(w: u32) -> Option<usize> {
    decode(w).map(|(r, s)| (r * 4 + s) as usize)
}

#[inline]
pub fn dp_of(w: u32) -> Option<usize> {
    ci_of(w).map(ci_to_dp)
}

/// The model's set form: bit 51 - deck position; 0 for every non-card word.
#[inline]
pub fn bit_of(w: u32) -> u64 {
    match dp_of(w) {
        Some(dp) => 1u64 << (51 - dp),
        None => 0,
    }
}

/// Model suit shift: spades -> hearts -> diamonds -> clubs -> spades; non-card words are not in
/// the statement's domain (blank stays blank).
#[inline]
pub fn shift(w: u32) -> u32 {
    match decode(w) {
        Some((r, s)) => word(r, (s + 3) % 4),
        None => 0,
    }
}

/// Human rendering of any word.
pub fn render(w: u32) -> String {
    if w == 0 {
        return "__".to_string();
    }
    match decode(w & 0x1FFF_FFFF) {
        Some((r, s)) => {
            let mut t = String::new();
            t.push(RANK_CHARS[r as usize]);
            t.push(SUIT_GLYPHS[s as usize]);
            let m = w >> 29;
            if m != 0 {
                t.push_str(&format!("+m{}", m));
            }
            t
        }
        None => format!("0x{:08X}", w),
    }
}

pub fn render_hand(ws: &[u32]) -> String {
    ws.iter().map(|w| render(*w)).collect::<Vec<_>>().join(" ")
}

pub fn self_check() -> Result<(), String> {
    // published examples from the README / Cactus Kev's page (with this crate's inverted suit order)
    // K♦ = 0x08002B25 in Kev's layout has suit nibble 0100 (diamonds) there; in the crate's variant
    // the documented example constants are decimal: A♠ = 268471337, 2♣ = 69634 (README).
    if word(12, 3) != 268_471_337 {
        return Err(format!("model A♠ = {}", word(12, 3)));
    }
    if word(0, 0) != 69_634 {
        return Err(format!("model 2♣ = {}", word(0, 0)));
    }
    if DECK[0] != word(12, 3) || DECK[51] != word(0, 0) || DECK[13] != word(12, 2) {
        return Err("deck order".into());
    }
    for i in 0..52 {
        if ci_to_dp(dp_to_ci(i)) != i || DECK[ci_to_dp(i)] != BY_CI[i] {
            return Err("index maps".into());
        }
        if ci_of(BY_CI[i]) != Some(i) {
            return Err("decode".into());
        }
    }
    for i in 1..52 {
        if BY_CI[i] <= BY_CI[i - 1] {
            return Err("ci order not ascending in word value".into());
        }
    }
    Ok(())
}
