//! M-poker: hand strength from the rules of poker. Nothing in here uses ckc-rs.
//!
//! Cards are rank-major card indexes `ci = r*4 + s` (see model::card).

use std::sync::OnceLock;

pub const CAT_HIGH: u32 = 0;
pub const CAT_PAIR: u32 = 1;
pub const CAT_TWO_PAIR: u32 = 2;
pub const CAT_TRIPS: u32 = 3;
pub const CAT_STRAIGHT: u32 = 4;
pub const CAT_FLUSH: u32 = 5;
pub const CAT_FULL: u32 = 6;
pub const CAT_QUADS: u32 = 7;
pub const CAT_SF: u32 = 8;

/// category names in the crate's documented spelling, indexed by CAT_*
pub const CAT_NAMES: [&str; 9] = [
    "HighCard",
    "Pair",
    "TwoPair",
    "ThreeOfAKind",
    "Straight",
    "Flush",
    "FullHouse",
    "FourOfAKind",
    "StraightFlush",
];

const SING: [&str; 13] = [
    "Deuce", "Trey", "Four", "Five", "Six", "Seven", "Eight", "Nine", "Ten", "Jack", "Queen", "King", "Ace",
];
const PLUR: [&str; 13] = [
    "Deuces", "Treys", "Fours", "Fives", "Sixes", "Sevens", "Eights", "Nines", "Tens", "Jacks", "Queens", "Kings",
    "Aces",
];

/// Slow, rule-based key of five cards: `cat << 20 | t0 << 16 | t1 << 12 | t2 << 8 | t3 << 4 | t4`
/// where t are the tie-break ranks in order of significance (unused positions 0). A larger key
/// is a stronger hand; equal keys tie.
pub fn key5(ranks: [u32; 5], flush: bool) -> u32 {
    let mut cnt = [0u32; 13];
    for r in ranks {
        cnt[r as usize] += 1;
    }
    // groups sorted by (count desc, rank desc)
    let mut groups: Vec<(u32, u32)> = (0..13u32).filter(|r| cnt[*r as usize] > 0).map(|r| (cnt[r as usize], r)).collect();
    groups.sort_by(|a, b| b.cmp(a));
    let distinct = groups.len();
    let mut straight_high: Option<u32> = None;
    if distinct == 5 {
        let hi = groups[0].1;
        let lo = groups[4].1;
        if hi - lo == 4 {
            straight_high = Some(hi);
        } else if hi == 12 && groups[1].1 == 3 && lo == 0 {
            // A 5 4 3 2: the ace plays low, five high
            straight_high = Some(3);
        }
    }
    let pack = |cat: u32, t: &[u32]| -> u32 {
        let mut k = cat << 20;
        for (i, r) in t.iter().enumerate() {
            k |= r << (16 - 4 * i as u32);
        }
        k
    };
    let gr: Vec<u32> = groups.iter().map(|g| g.1).collect();
    if let Some(h) = straight_high {
        return if flush { pack(CAT_SF, &[h]) } else { pack(CAT_STRAIGHT, &[h]) };
    }
    if groups[0].0 == 4 {
        return pack(CAT_QUADS, &gr);
    }
    if groups[0].0 == 3 && groups[1].0 == 2 {
        return pack(CAT_FULL, &gr);
    }
    if flush {
        return pack(CAT_FLUSH, &gr);
    }
    if groups[0].0 == 3 {
        return pack(CAT_TRIPS, &gr);
    }
    if groups[0].0 == 2 && groups[1].0 == 2 {
        return pack(CAT_TWO_PAIR, &gr);
    }
    if groups[0].0 == 2 {
        return pack(CAT_PAIR, &gr);
    }
    pack(CAT_HIGH, &gr)
}

#[inline]
pub fn key_cat(key: u32) -> u32 {
    key >> 20
}

#[inline]
fn key_t(key: u32, i: u32) -> usize {
    ((key >> (16 - 4 * i)) & 0xF) as usize
}

/// Category and class text of a key, spelled the way the crate's enums are documented.
pub fn class_text(key: u32) -> (String, String) {
    let cat = key_cat(key);
    let t0 = key_t(key, 0);
    let t1 = key_t(key, 1);
    let class = match cat {
        CAT_SF => {
            if t0 == 12 {
                "RoyalFlush".to_string()
            } else {
                format!("{}HighStraightFlush", SING[t0])
            }
        }
        CAT_QUADS => format!("Four{}", PLUR[t0]),
        CAT_FULL => format!("{}Over{}", PLUR[t0], PLUR[t1]),
        CAT_FLUSH => format!("{}HighFlush", SING[t0]),
        CAT_STRAIGHT => format!("{}HighStraight", SING[t0]),
        CAT_TRIPS => format!("Three{}", PLUR[t0]),
        CAT_TWO_PAIR => format!("{}And{}", PLUR[t0], PLUR[t1]),
        CAT_PAIR => format!("PairOf{}", PLUR[t0]),
        _ => format!("{}High", SING[t0]),
    };
    (CAT_NAMES[cat as usize].to_string(), class)
}

pub struct Tables {
    /// keys sorted strongest first; ordinal = index + 1
    pub keys: Vec<u32>,
    /// number of five-card hands per ordinal (index = ordinal, [0] unused)
    pub class_size: Vec<u32>,
    /// flush hands by 13-bit rank mask -> ordinal (0 = not a 5-bit mask)
    pub flush: Vec<u16>,
    /// non-flush hands by ascending-sorted rank tuple r0<<16|r1<<12|r2<<8|r3<<4|r4 (r0<=..<=r4)
    pub nonflush: Vec<u16>,
    /// one representative five-card hand (ascending card indexes) per ordinal ([0] unused)
    pub rep: Vec<[u8; 5]>,
}

static TABLES: OnceLock<Tables> = OnceLock::new();

pub fn tables() -> &'static Tables {
    TABLES.get_or_init(|| {
        // child processes of one run may be handed the parent's tables (same binary, same model)
        // instead of rebuilding them: VERIF_TABLES_FILE names a file the parent wrote in this run
        if let Ok(path) = std::env::var("VERIF_TABLES_FILE") {
            if let Some(t) = load_tables(&path) {
                return t;
            }
        }
        build_tables()
    })
}

const TABLES_MAGIC: u32 = 0x434B_4331;

/// serialise the tables (little-endian, fixed layout, trailing checksum)
pub fn save_tables(t: &Tables, path: &str) -> std::io::Result<()> {
    let mut b: Vec<u8> = Vec::with_capacity(2_200_000);
    b.extend(TABLES_MAGIC.to_le_bytes());
    b.extend((t.keys.len() as u32).to_le_bytes());
    for k in &t.keys {
        b.extend(k.to_le_bytes());
    }
    for c in &t.class_size {
        b.extend(c.to_le_bytes());
    }
    for f in &t.flush {
        b.extend(f.to_le_bytes());
    }
    for f in &t.nonflush {
        b.extend(f.to_le_bytes());
    }
    for r in &t.rep {
        b.extend(r);
    }
    let mut h = 0xcbf29ce484222325u64;
    for x in &b {
        h ^= *x as u64;
        h = h.wrapping_mul(0x100000001b3);
    }
    b.extend(h.to_le_bytes());
    std::fs::write(path, b)
}

fn load_tables(path: &str) -> Option<Tables> {
    let b = std::fs::read(path).ok()?;
    if b.len() < 16 {
        return None;
    }
    let (body, tail) = b.split_at(b.len() - 8);
    let mut h = 0xcbf29ce484222325u64;
    for x in body {
        h ^= *x as u64;
        h = h.wrapping_mul(0x100000001b3);
    }
    if h.to_le_bytes() != tail {
        return None;
    }
    let mut pos = 0usize;
    let u32_at = |pos: &mut usize| -> u32 {
        let v = u32::from_le_bytes([body[*pos], body[*pos + 1], body[*pos + 2], body[*pos + 3]]);
        *pos += 4;
        v
    };
    if u32_at(&mut pos) != TABLES_MAGIC {
        return None;
    }
    let n = u32_at(&mut pos) as usize;
    if n != 7462 || body.len() != 8 + 4 * n + 4 * (n + 1) + 2 * 8192 + 2 * (1 << 20) + 5 * (n + 1) {
        return None;
    }
    let keys: Vec<u32> = (0..n).map(|_| u32_at(&mut pos)).collect();
    let class_size: Vec<u32> = (0..n + 1).map(|_| u32_at(&mut pos)).collect();
    let u16s = |count: usize, pos: &mut usize| -> Vec<u16> {
        let v = (0..count).map(|i| u16::from_le_bytes([body[*pos + 2 * i], body[*pos + 2 * i + 1]])).collect();
        *pos += 2 * count;
        v
    };
    let flush = u16s(8192, &mut pos);
    let nonflush = u16s(1 << 20, &mut pos);
    let rep: Vec<[u8; 5]> = (0..n + 1).map(|i| [body[pos + 5 * i], body[pos + 5 * i + 1], body[pos + 5 * i + 2], body[pos + 5 * i + 3], body[pos + 5 * i + 4]]).collect();
    Some(Tables { keys, class_size, flush, nonflush, rep })
}

#[inline]
pub fn tuple_index(r: [u32; 5]) -> usize {
    ((r[0] << 16) | (r[1] << 12) | (r[2] << 8) | (r[3] << 4) | r[4]) as usize
}

fn build_tables() -> Tables {
    // every five-card subset, slow key
    let mut all: Vec<u32> = Vec::with_capacity(2_598_960);
    for_each_subset::<5>(52, |c| {
        let ranks = [c[0] / 4, c[1] / 4, c[2] / 4, c[3] / 4, c[4] / 4].map(|x| x as u32);
        let s0 = c[0] % 4;
        let flush = c.iter().all(|x| x % 4 == s0);
        all.push(key5(ranks, flush));
    });
    let mut keys = all.clone();
    keys.sort_unstable_by(|a, b| b.cmp(a));
    keys.dedup();
    let ord_of = |k: u32| -> u16 { (keys.binary_search_by(|p| k.cmp(p)).expect("key present") + 1) as u16 };
    let mut class_size = vec![0u32; keys.len() + 1];
    let mut flush = vec![0u16; 8192];
    let mut nonflush = vec![0u16; 1 << 20];
    let mut rep = vec![[0u8; 5]; keys.len() + 1];
    let mut i = 0;
    for_each_subset::<5>(52, |c| {
        let k = all[i];
        i += 1;
        let o = ord_of(k);
        class_size[o as usize] += 1;
        rep[o as usize] = [c[0] as u8, c[1] as u8, c[2] as u8, c[3] as u8, c[4] as u8];
        let ranks = [c[0] / 4, c[1] / 4, c[2] / 4, c[3] / 4, c[4] / 4].map(|x| x as u32);
        let s0 = c[0] % 4;
        let fl = c.iter().all(|x| x % 4 == s0);
        if fl {
            let mask = ranks.iter().fold(0usize, |m, r| m | (1 << r));
            flush[mask] = o;
        } else {
            nonflush[tuple_index(ranks)] = o;
        }
    });
    Tables { keys, class_size, flush, nonflush, rep }
}

/// Enumerate all K-subsets of 0..n ascending (lexicographic), calling f with the index tuple.
pub fn for_each_subset<const K: usize>(n: usize, mut f: impl FnMut(&[usize; K])) {
    let mut c = [0usize; K];
    for (i, x) in c.iter_mut().enumerate() {
        *x = i;
    }
    if K > n {
        return;
    }
    loop {
        f(&c);
        let mut i = K;
        while i > 0 && c[i - 1] == (i - 1) + n - K {
            i -= 1;
        }
        if i == 0 {
            return;
        }
        c[i - 1] += 1;
        for j in i..K {
            c[j] = c[j - 1] + 1;
        }
    }
}

/// Fast ordinal of five cards given as ascending card indexes (ci).
#[inline]
pub fn ord5_sorted(t: &Tables, c: [u8; 5]) -> u16 {
    let s0 = c[0] & 3;
    let fl = (c[1] & 3) == s0 && (c[2] & 3) == s0 && (c[3] & 3) == s0 && (c[4] & 3) == s0;
    if fl {
        let mask = (1usize << (c[0] >> 2)) | (1 << (c[1] >> 2)) | (1 << (c[2] >> 2)) | (1 << (c[3] >> 2)) | (1 << (c[4] >> 2));
        t.flush[mask]
    } else {
        let idx = (((c[0] >> 2) as usize) << 16)
            | (((c[1] >> 2) as usize) << 12)
            | (((c[2] >> 2) as usize) << 8)
            | (((c[3] >> 2) as usize) << 4)
            | ((c[4] >> 2) as usize);
        t.nonflush[idx]
    }
}

/// Slow ordinal of five cards in any order (rule-based key, binary search in the key list).
pub fn ord5_slow(t: &Tables, c: [u8; 5]) -> u16 {
    let ranks = [c[0] / 4, c[1] / 4, c[2] / 4, c[3] / 4, c[4] / 4].map(|x| x as u32);
    let s0 = c[0] % 4;
    let flush = c.iter().all(|x| x % 4 == s0);
    let k = key5(ranks, flush);
    (t.keys.binary_search_by(|p| k.cmp(p)).expect("key present") + 1) as u16
}

pub const SIX_SUBSETS: [[usize; 5]; 6] = [[0, 1, 2, 3, 4], [0, 1, 2, 3, 5], [0, 1, 2, 4, 5], [0, 1, 3, 4, 5], [0, 2, 3, 4, 5], [1, 2, 3, 4, 5]];

/// Model form 1 for n = 6/7 ascending cards: min ordinal over all five-subsets. Returns
/// (ordinal, index of the first subset (lexicographic) that attains it, number of subsets attaining it).
#[inline]
pub fn best_min<const N: usize>(t: &Tables, c: &[u8; N]) -> (u16, u32, u32) {
    let mut best = u16::MAX;
    let mut which = 0u32;
    let mut ties = 0u32;
    let mut idx = 0u32;
    // enumerate the complement (1 or 2 left-out cards) so that the subsets stay ascending
    if N == 6 {
        for skip in (0..6).rev() {
            let mut s = [0u8; 5];
            let mut k = 0;
            for (i, x) in c.iter().enumerate() {
                if i != skip {
                    s[k] = *x;
                    k += 1;
                }
            }
            let o = ord5_sorted(t, s);
            if o < best {
                best = o;
                which = idx;
                ties = 1;
            } else if o == best {
                ties += 1;
            }
            idx += 1;
        }
    } else {
        for a in 0..N {
            for b in a + 1..N {
                let mut s = [0u8; 5];
                let mut k = 0;
                for (i, x) in c.iter().enumerate() {
                    if i != a && i != b {
                        s[k] = *x;
                        k += 1;
                    }
                }
                let o = ord5_sorted(t, s);
                if o < best {
                    best = o;
                    which = idx;
                    ties = 1;
                } else if o == best {
                    ties += 1;
                }
                idx += 1;
            }
        }
    }
    (best, which, ties)
}

/// Model form 2: direct rule-based evaluation of n (5..=7) distinct cards, any order.
/// Returns the ordinal of the best five-card hand.
pub fn best_direct(t: &Tables, cards: &[u8]) -> u16 {
    let mut suit_cnt = [0u32; 4];
    let mut suit_mask = [0u32; 4];
    let mut cnt = [0u32; 13];
    let mut rmask = 0u32;
    for &c in cards {
        let r = (c >> 2) as usize;
        let s = (c & 3) as usize;
        suit_cnt[s] += 1;
        suit_mask[s] |= 1 << r;
        cnt[r] += 1;
        rmask |= 1 << r;
    }
    let straight_high = |m: u32| -> Option<u32> {
        let mut h = 12i32;
        while h >= 4 {
            let need = 0x1F << (h - 4);
            if m & need == need {
                return Some(h as u32);
            }
            h -= 1;
        }
        if m & 0x100F == 0x100F {
            return Some(3);
        }
        None
    };
    let straight_ranks = |h: u32| -> [u32; 5] {
        if h == 3 {
            [0, 1, 2, 3, 12]
        } else {
            [h - 4, h - 3, h - 2, h - 1, h]
        }
    };
    let top_bits = |mut m: u32, n: usize| -> Vec<u32> {
        let mut v = Vec::new();
        while v.len() < n && m != 0 {
            let r = 31 - m.leading_zeros();
            v.push(r);
            m &= !(1 << r);
        }
        v
    };
    let flush_suit = (0..4).find(|s| suit_cnt[*s] >= 5);
    let look_flush = |ranks: &[u32]| -> u16 {
        let mask = ranks.iter().fold(0usize, |m, r| m | (1 << r));
        t.flush[mask]
    };
    let look_non = |ranks: &mut [u32; 5]| -> u16 {
        ranks.sort_unstable();
        t.nonflush[tuple_index(*ranks)]
    };
    // straight flush
    if let Some(s) = flush_suit {
        if let Some(h) = straight_high(suit_mask[s]) {
            return look_flush(&straight_ranks(h));
        }
    }
    let by_count = |n: u32| -> Vec<u32> { (0..13u32).rev().filter(|r| cnt[*r as usize] == n).collect() };
    let quads = by_count(4);
    let trips = by_count(3);
    let pairs = by_count(2);
    if let Some(&q) = quads.first() {
        let k = top_bits(rmask & !(1 << q), 1)[0];
        return look_non(&mut [q, q, q, q, k]);
    }
    if let Some(&tr) = trips.first() {
        // best other rank held at least twice
        let other = (0..13u32).rev().find(|r| *r != tr && cnt[*r as usize] >= 2);
        if let Some(p) = other {
            return look_non(&mut [tr, tr, tr, p, p]);
        }
    }
    if let Some(s) = flush_suit {
        let v = top_bits(suit_mask[s], 5);
        return look_flush(&v);
    }
    if let Some(h) = straight_high(rmask) {
        return look_non(&mut straight_ranks(h));
    }
    if let Some(&tr) = trips.first() {
        let k = top_bits(rmask & !(1 << tr), 2);
        return look_non(&mut [tr, tr, tr, k[0], k[1]]);
    }
    if pairs.len() >= 2 {
        let (p1, p2) = (pairs[0], pairs[1]);
        let k = top_bits(rmask & !(1 << p1) & !(1 << p2), 1)[0];
        return look_non(&mut [p1, p1, p2, p2, k]);
    }
    if pairs.len() == 1 {
        let p = pairs[0];
        let k = top_bits(rmask & !(1 << p), 3);
        return look_non(&mut [p, p, k[0], k[1], k[2]]);
    }
    let k = top_bits(rmask, 5);
    look_non(&mut [k[0], k[1], k[2], k[3], k[4]])
}

/// category (CAT_*) of an ordinal 1..=7462
pub fn cat_of_ord(t: &Tables, ord: u16) -> u32 {
    key_cat(t.keys[ord as usize - 1])
}

pub const FREQ5: [u64; 9] = [1_302_540, 1_098_240, 123_552, 54_912, 10_200, 5_108, 3_744, 624, 40];
pub const FREQ6: [u64; 9] = [6_612_900, 9_730_740, 2_532_816, 732_160, 361_620, 205_792, 165_984, 14_664, 1_844];
pub const FREQ7: [u64; 9] = [23_294_460, 58_627_800, 31_433_400, 6_461_620, 6_180_020, 4_047_644, 3_473_184, 224_848, 41_584];
/// number of distinct classes per category (CAT_* index)
pub const CLASSES_PER_CAT: [u32; 9] = [1277, 2860, 858, 858, 10, 1277, 156, 156, 10];

pub fn self_check() -> Result<(), String> {
    let t = tables();
    if t.keys.len() != 7462 {
        return Err(format!("{} classes instead of 7462", t.keys.len()));
    }
    let mut per_cat = [0u32; 9];
    let mut freq = [0u64; 9];
    for (i, k) in t.keys.iter().enumerate() {
        per_cat[key_cat(*k) as usize] += 1;
        freq[key_cat(*k) as usize] += t.class_size[i + 1] as u64;
    }
    if per_cat != CLASSES_PER_CAT {
        return Err(format!("classes per category {:?}", per_cat));
    }
    if freq != FREQ5 {
        return Err(format!("five-card frequencies {:?}", freq));
    }
    // end points documented everywhere: 1 = royal flush, 7462 = 7-5-4-3-2 unsuited
    if t.keys[0] != (CAT_SF << 20 | 12 << 16) {
        return Err("ordinal 1 is not the royal flush".into());
    }
    let last = key5([5, 3, 2, 1, 0], false);
    if t.keys[7461] != last {
        return Err("ordinal 7462 is not 7-5-4-3-2".into());
    }
    // the two forms of the model agree on a spread of hands
    let mut n = 0u64;
    let mut bad = None;
    for_each_subset::<5>(52, |c| {
        n += 1;
        if n % 97 == 0 {
            let cc = [c[0] as u8, c[1] as u8, c[2] as u8, c[3] as u8, c[4] as u8];
            let a = ord5_sorted(t, cc);
            let b = ord5_slow(t, cc);
            let d = best_direct(t, &cc);
            if a != b || a != d {
                bad = Some(format!("{:?}: fast {} slow {} direct {}", cc, a, b, d));
            }
        }
    });
    if let Some(b) = bad {
        return Err(b);
    }
    Ok(())
}
