//! Reference models (oracles). Nothing in this module tree imports ckc-rs.
pub mod card;
pub mod chen;
pub mod poker;
pub mod text;

pub fn self_check() -> Result<(), String> {
    card::self_check()?;
    poker::self_check()?;
    chen::self_check()?;
    text::self_check()?;
    Ok(())
}
