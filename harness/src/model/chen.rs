//! M-chen: Bill Chen's starting-hand formula in integer half-points. No floats, no ckc-rs.

/// per-card points in half-points; r = 0 (deuce) .. 12 (ace)
pub fn card_half_points(r: u32) -> i32 {
    match r {
        12 => 20,
        11 => 16,
        10 => 14,
        9 => 12,
        _ => (r + 2) as i32, // pip value / 2, in half points = pip value
    }
}

pub fn gap(r1: u32, r2: u32) -> u32 {
    let d = if r1 > r2 { r1 - r2 } else { r2 - r1 };
    if d == 0 {
        0
    } else {
        d - 1
    }
}

/// Chen score of two distinct cards (r, s), (r, s).
pub fn chen(r1: u32, s1: u32, r2: u32, s2: u32) -> i32 {
    let hi = r1.max(r2);
    let mut p = card_half_points(hi);
    if r1 == r2 {
        p = (2 * p).max(10);
    } else {
        let g = gap(r1, r2);
        p -= match g {
            0 => 0,
            1 => 2,
            2 => 4,
            3 => 8,
            _ => 10,
        };
        // +1 for a gap under 2 when the high card is below a queen (r = 10)
        if g < 2 && hi < 10 {
            p += 2;
        }
    }
    if s1 == s2 {
        p += 4;
    }
    // round half up, also for negative totals
    (p + 1).div_euclid(2)
}

pub fn self_check() -> Result<(), String> {
    // Published examples of the Chen formula: AKs = 12, AA = 20, 22 = 5, T9s... = 9? (T=5, +1, +2 = 8 -> 5+0+1+2 = 8)
    let ex: [((u32, u32, u32, u32), i32); 8] = [
        ((12, 3, 11, 3), 12), // AKs: 10 + 2
        ((12, 3, 12, 2), 20), // AA
        ((0, 3, 0, 2), 5),    // 22: max(2, 5)
        ((11, 3, 11, 0), 16), // KK
        ((8, 3, 8, 0), 10),   // TT
        ((3, 2, 5, 2), 6),    // 7-5 suited: 3.5 - 1 + 1 + 2 = 5.5 -> 6
        ((0, 0, 5, 2), -1),   // 7-2 offsuit: 3.5 - 5 = -1.5 -> -1
        ((9, 3, 8, 3), 9),    // JTs: 6 + 1 + 2
    ];
    for ((a, b, c, d), want) in ex {
        let got = chen(a, b, c, d);
        if got != want {
            return Err(format!("chen({},{},{},{}) = {} want {}", a, b, c, d, got, want));
        }
    }
    Ok(())
}
