//! ckc-verif <ID> [--tier quick|thorough] [--seed N] [--replay <path>] [--sub <tag>] [--no-evidence]
//! exit 0: held on everything explored; 1: VIOLATION printed; 2: cannot decide (harness problem).

use ckc_verif::engine::{self, Run, Tier};
use ckc_verif::{model, props};
use std::process::exit;

fn usage() -> ! {
    eprintln!("usage: ckc-verif <C01..C20> [--tier quick|thorough] [--seed N] [--replay <path>] [--sub <tag>]");
    exit(2)
}

fn main() {
    let args: Vec<String> = std::env::args().skip(1).collect();
    if args.is_empty() {
        usage();
    }
    let id = args[0].to_uppercase();
    let mut tier = match std::env::var("VERIF_TIER").as_deref() {
        Ok("thorough") => Tier::Thorough,
        _ => Tier::Quick,
    };
    let mut tier_forced = false;
    let mut seed: u64 = std::env::var("VERIF_SEED").ok().and_then(|s| s.trim().parse::<i64>().ok()).map(|x| x as u64).unwrap_or(0);
    let mut replay: Option<String> = None;
    let mut sub: Option<String> = None;
    let mut write_evidence = true;
    let mut cold: Option<usize> = None;
    let mut i = 1;
    while i < args.len() {
        match args[i].as_str() {
            "--tier" => {
                i += 1;
                tier = match args.get(i).map(|s| s.as_str()) {
                    Some("quick") => Tier::Quick,
                    Some("thorough") => Tier::Thorough,
                    _ => usage(),
                };
                tier_forced = true;
            }
            "quick" => {
                tier = Tier::Quick;
                tier_forced = true;
            }
            "thorough" => {
                tier = Tier::Thorough;
                tier_forced = true;
            }
            "--seed" => {
                i += 1;
                seed = args.get(i).and_then(|s| s.parse::<i64>().ok()).map(|x| x as u64).unwrap_or_else(|| usage());
            }
            "--replay" => {
                i += 1;
                replay = Some(args.get(i).cloned().unwrap_or_else(|| usage()));
            }
            "--sub" => {
                i += 1;
                sub = Some(args.get(i).cloned().unwrap_or_else(|| usage()));
            }
            "--no-evidence" => write_evidence = false,
            "--cold" => {
                i += 1;
                cold = Some(args.get(i).and_then(|s| s.parse::<usize>().ok()).unwrap_or_else(|| usage()));
                write_evidence = false;
            }
            _ => usage(),
        }
        i += 1;
    }
    let _ = tier_forced;

    engine::install_panic_hook();
    // ckc-rs depends on the `log` facade: the run in the second build profile (and every other
    // cold-start child) is made with a logger installed at Trace level, the primary run without
    // one, so that code guarded by log_enabled!(..) is executed in one of the two configurations
    if sub.is_some() || cold.map(|k| (k / 16) % 2 == 1).unwrap_or(false) {
        struct Discard;
        impl log::Log for Discard {
            fn enabled(&self, _: &log::Metadata) -> bool {
                true
            }
            fn log(&self, r: &log::Record) {
                std::hint::black_box(r.args().to_string().len());
            }
            fn flush(&self) {}
        }
        static DISCARD: Discard = Discard;
        let _ = log::set_logger(&DISCARD);
        log::set_max_level(log::LevelFilter::Trace);
    }

    // watchdog: a run that does not finish is inconclusive, never a violation
    let budget_s: u64 = std::env::var("VERIF_WATCHDOG_S").ok().and_then(|s| s.parse().ok()).unwrap_or(match tier {
        Tier::Quick => 1800,
        Tier::Thorough => 6 * 3600,
    });
    {
        let id = id.clone();
        std::thread::spawn(move || {
            std::thread::sleep(std::time::Duration::from_secs(budget_s));
            println!("INCONCLUSIVE property={} watchdog after {} s (not a violation)", id, budget_s);
            exit(2);
        });
    }

    let Some(prop) = props::find(&id) else {
        eprintln!("unknown property {}", id);
        exit(2)
    };

    // oracle self-checks: a failure here is a harness defect, not a violation
    if cold.is_some() {
        // cold-start child: the parent has checked the oracles; nothing may delay the first calls
    } else if let Err(e) = model::self_check() {
        println!("HARNESS-DEFECT oracle self-check failed: {}", e);
        exit(2);
    }

    if let Some(path) = replay {
        let text = match std::fs::read_to_string(&path) {
            Ok(t) => t,
            Err(e) => {
                eprintln!("cannot read {}: {}", path, e);
                exit(2)
            }
        };
        let rec: serde_json::Value = match serde_json::from_str(&text) {
            Ok(v) => v,
            Err(e) => {
                eprintln!("bad replay file {}: {}", path, e);
                exit(2)
            }
        };
        // a case recorded under the other build profile is replayed by the twin binary
        if let Some(p) = rec["profile"].as_str() {
            if p != engine::profile() {
                let twin = engine::twin_binary(&engine::verif_root(), p);
                let st = std::process::Command::new(&twin).arg(&id).arg("--replay").arg(&path).env("VERIF_ROOT", engine::verif_root()).status();
                match st {
                    Ok(s) => exit(s.code().unwrap_or(2)),
                    Err(e) => {
                        eprintln!("cannot run {}: {}", twin.display(), e);
                        exit(2)
                    }
                }
            }
        }
        let clause = rec["clause"].as_str().unwrap_or("").to_string();
        let case = rec.get("case").cloned().unwrap_or(serde_json::Value::Null);
        let r = std::panic::catch_unwind(|| (prop.check_case)(&clause, &case));
        match r {
            Ok(Ok(())) => {
                println!("REPLAY property={} clause={} holds on this case", id, clause);
                exit(0);
            }
            Ok(Err(msg)) => {
                println!("VIOLATION property={} replay={}", id, path);
                println!("  clause : {}", clause);
                println!("  what   : {}", msg);
                exit(1);
            }
            Err(_) => {
                println!("HARNESS-DEFECT panic while replaying {}", path);
                exit(2);
            }
        }
    }

    let mut run = Run::new(&id, tier, seed);
    run.sub = sub;
    run.write_evidence = write_evidence;
    run.cold = cold;
    run.cold_singles = prop.cold_singles;
    let r = std::panic::catch_unwind(std::panic::AssertUnwindSafe(|| {
        if run.sub.is_none() && run.cold.is_none() && std::env::var("VERIF_SINGLE_PROFILE").is_err() {
            run.cold_children()?;
        }
        (prop.run)(&mut run)?;
        if run.cold.is_some() {
            println!("COLDRESULT none");
            return Ok(());
        }
        if run.sub.is_none() && std::env::var("VERIF_SINGLE_PROFILE").is_err() {
            // every property is also exercised in the other build profile
            run.run_twin()?;
            run.assume("both build profiles are executed: checked (overflow checks + debug assertions) and unchecked (neither); opt-level 0 is assumed equivalent");
        }
        Ok(())
    }));
    match r {
        Ok(Ok(())) => {
            run.finish();
            exit(0);
        }
        Ok(Err(engine::Stop)) => {
            run.finish();
            exit(1);
        }
        Err(_) => {
            println!("HARNESS-DEFECT panic inside the harness while checking {} (not a violation)", id);
            exit(2);
        }
    }
}
