//! C06 — hand rank name and class describe exactly the poker class of the value.

use super::common::*;
use super::multi::{model_best, pack, pos_table};
use crate::engine::enumerate::{choose, par_tuples, Acc};
use crate::engine::{self, guard, mix2, perm_from_index, PResult, Run, Tier};
use crate::model::{card, poker};
use ckc_rs::cards::five::Five;
use ckc_rs::cards::seven::Seven;
use ckc_rs::cards::six::Six;
use ckc_rs::cards::HandRanker;
use ckc_rs::hand_rank::{HandRank, HandRankClass, HandRankName};
use serde_json::{json, Value};
use strum::IntoEnumIterator;

/// model text (category, class) of a value
fn model_text(v: u16) -> (String, String) {
    let t = poker::tables();
    if (1..=7462).contains(&v) {
        poker::class_text(t.keys[v as usize - 1])
    } else {
        ("Invalid".to_string(), "Invalid".to_string())
    }
}

fn value_clauses(v: u16) -> Result<(), (&'static str, String)> {
    let (mn, mc) = model_text(v);
    let r = guard(|| HandRank::from(v)).map_err(|m| ("C06.value", format!("HandRank::from({}) panicked: {}", v, m)))?;
    if r.value != v {
        return Err(("C06.value", format!("HandRank::from({}) carries value {}", v, r.value)));
    }
    let (n, c) = (format!("{:?}", r.name), format!("{:?}", r.class));
    if n != mn {
        return Err(("C06.name", format!("HandRank::from({}) has category {}, the poker class with that ordinal is {} / {}", v, n, mn, mc)));
    }
    if c != mc {
        return Err(("C06.class", format!("HandRank::from({}) has class {}, the poker class with that ordinal is {} / {}", v, c, mn, mc)));
    }
    let dn = format!("{:?}", HandRank::determine_name(&v));
    let dc = format!("{:?}", HandRank::determine_class(&v));
    if dn != mn || dc != mc {
        return Err(("C06.class", format!("determine_name/determine_class({}) = {}/{}, expected {}/{}", v, dn, dc, mn, mc)));
    }
    let inv = v == 0 || v > 7462;
    if r.is_invalid() != inv {
        return Err(("C06.invalid", format!("HandRank::from({}).is_invalid() is {}, expected {}", v, r.is_invalid(), inv)));
    }
    if (c == "Invalid") != inv || (n == "Invalid") != inv {
        return Err(("C06.invalid", format!("HandRank::from({}) is {}/{}; Invalid is expected for both exactly when the value is 0 or above 7462", v, n, c)));
    }
    if !r.is_a_valid_hand_rank() {
        return Err(("C06.consistent", format!("HandRank::from({}) fails its own consistency test", v)));
    }
    Ok(())
}

/// from(a) then from(b): b's rank must be what the model says
fn pair_sequence(a: u16, b: u16) -> Result<(), String> {
    std::hint::black_box(HandRank::from(a.wrapping_add(4321)));
    std::hint::black_box(HandRank::from(a));
    let r = HandRank::from(b);
    let (mn, mc) = model_text(b);
    if format!("{:?}", r.name) != mn || format!("{:?}", r.class) != mc || r.value != b {
        return Err(format!("HandRank::from({}) converted right after from({}) is value {} {:?}/{:?}, the poker class with ordinal {} is {}/{}", b, a, r.value, r.name, r.class, b, mn, mc));
    }
    Ok(())
}

struct A {
    n: u64,
    fail: Option<(Vec<u32>, String)>,
    sample: Option<(Vec<u32>, u16)>,
}
impl Acc for A {
    fn merge(&mut self, o: Self) {
        self.n += o.n;
        if self.fail.is_none() {
            self.fail = o.fail;
        }
        if self.sample.is_none() {
            self.sample = o.sample;
        }
    }
    fn failed(&self) -> bool {
        self.fail.is_some()
    }
}

/// the rank reported for a hand must equal the conversion of the model's ordinal, field by field
fn hand_clause(ws: &[u32]) -> Result<(), String> {
    let t = poker::tables();
    let cis = cis_of(ws)?;
    let exp = poker::best_direct(t, &cis);
    let want = HandRank::from(exp);
    let (mn, mc) = model_text(exp);
    let hand = card::render_hand(ws);
    let check = |what: &str, r: Result<HandRank, String>| -> Result<(), String> {
        let r = r.map_err(|m| format!("{} on [{}] panicked: {}", what, hand, m))?;
        if r != want {
            return Err(format!("{} on [{}] reports {:?}/{:?} value {}; the cards make {} / {} (ordinal {})", what, hand, r.name, r.class, r.value, mn, mc, exp));
        }
        // and directly from the cards, as text
        if format!("{:?}", r.name) != mn || format!("{:?}", r.class) != mc {
            return Err(format!("{} on [{}] reports {:?}/{:?}; the cards make {} / {}", what, hand, r.name, r.class, mn, mc));
        }
        Ok(())
    };
    match ws.len() {
        5 => {
            let h = Five::from(arr::<5>(ws)?);
            check("Five::hand_rank", guard(|| h.hand_rank()))?;
            check("Five::hand_rank_validated", guard(|| h.hand_rank_validated()))?;
            let v = guard(|| h.hand_rank_value())?;
            if v != exp {
                return Err(format!("Five::hand_rank_value on [{}] is {} but the rank carries {}", hand, v, exp));
            }
        }
        6 => {
            let h = Six::from(arr::<6>(ws)?);
            check("Six::hand_rank", guard(|| h.hand_rank()))?;
            check("Six::hand_rank_validated", guard(|| h.hand_rank_validated()))?;
        }
        7 => {
            let h = Seven::from(arr::<7>(ws)?);
            check("Seven::hand_rank", guard(|| h.hand_rank()))?;
            check("Seven::hand_rank_validated", guard(|| h.hand_rank_validated()))?;
        }
        n => return Err(format!("size {}", n)),
    }
    Ok(())
}

fn hands<const N: usize>(run: &mut Run, stratum: u64, ranks: &[HandRank]) -> PResult {
    let t = poker::tables();
    let rows = pos_table::<N>();
    let seed = run.seed;
    let nfact = engine::factorial(N as u64);
    let twin = run.is_twin();
    let acc = par_tuples::<N, A>(52, true, || A { n: 0, fail: None, sample: None }, |acc, c| {
        let p = pack(c);
        if stratum > 1 && mix2(seed ^ 0xC06, p) % stratum != 0 {
            return true;
        }
        let exp = if N == 5 { poker::ord5_sorted(t, [c[0], c[1], c[2], c[3], c[4]]) } else { model_best(t, &rows, c).0 };
        let want = ranks[exp as usize];
        let w = words_of_ci(c);
        let wp = engine::apply_perm(&w, &perm_from_index::<N>(mix2(seed ^ 0x06, p) % nfact));
        let mut wd = w;
        wd.reverse();
        acc.n += 1;
        let r = guard(|| {
            let mut ok = true;
            if N == 5 && !twin {
                // five-card hands: every one of the 120 slot orders
                for pi in 0..120u64 {
                    let a = engine::apply_perm(&w, &perm_from_index::<N>(pi));
                    let h = Five::from([a[0], a[1], a[2], a[3], a[4]]);
                    ok &= h.hand_rank() == want && h.hand_rank_validated() == want;
                }
            }
            for a in [w, wd, wp] {
                match N {
                    5 => {
                        let h = Five::from([a[0], a[1], a[2], a[3], a[4]]);
                        ok &= h.hand_rank() == want && h.hand_rank_validated() == want && h.hand_rank_value() == exp;
                    }
                    6 => {
                        let h = Six::from([a[0], a[1], a[2], a[3], a[4], a[5]]);
                        ok &= h.hand_rank() == want && h.hand_rank_validated() == want;
                    }
                    _ => {
                        let h = Seven::from([a[0], a[1], a[2], a[3], a[4], a[5], a[6]]);
                        ok &= h.hand_rank() == want && h.hand_rank_validated() == want;
                    }
                }
            }
            ok
        });
        if r != Ok(true) {
            let mut bad = if hand_clause(&w).is_err() {
                w
            } else if hand_clause(&wd).is_err() {
                wd
            } else {
                wp
            };
            if N == 5 && hand_clause(&bad).is_ok() {
                for pi in 0..120u64 {
                    let a = engine::apply_perm(&w, &perm_from_index::<N>(pi));
                    if hand_clause(&a).is_err() {
                        bad = a;
                        break;
                    }
                }
            }
            match hand_clause(&bad) {
                Err(m) => acc.fail = Some((bad.to_vec(), m)),
                Ok(()) => panic!("fast and slow paths disagree on {:?}", bad),
            }
            return false;
        }
        if acc.sample.is_none() && p % 2003 == 7 {
            acc.sample = Some((w.to_vec(), exp));
        }
        true
    });
    run.generator(
        &format!("{}-card subsets{} through hand_rank / hand_rank_validated ({})", N, if stratum > 1 { format!(" (seeded 1-in-{} stratum)", stratum) } else { String::new() }, if N == 5 { "all 120 slot orders" } else { "ascending, descending and 1 seeded slot order" }),
        if stratum > 1 { "exhaustive-stratum" } else { "exhaustive" },
        Some(choose(52, N as u64)),
        acc.n,
        acc.n,
        "cases = hands; category and class derived from the cards by the model; every hand is non-trivial (the suite derives class text from cards for none)",
    );
    if let Some((w, v)) = &acc.sample {
        let (n, c) = model_text(*v);
        run.sample(json!({"cards": card::render_hand(w), "value": v, "category": n, "class": c}));
    }
    if let Some((w, m)) = &acc.fail {
        let mut s = w.clone();
        s.sort_unstable_by(|a, b| b.cmp(a));
        return run.violation("C06.hand", &card::render_hand(&s), hand_json(w), m);
    }
    Ok(())
}

pub fn run(run: &mut Run) -> PResult {
    run.rule = "all 65,536 values through HandRank::from / determine_name / determine_class / is_invalid / is_a_valid_hand_rank, compared as text with the category and class the model derives for the poker class of that ordinal; all enum variants (each non-Invalid variant must label one contiguous non-empty value range); all 5-card subsets in all 120 slot orders, all 6-card subsets and (quick: 1-in-8 stratum / thorough: all) 7-card subsets in ascending, descending and one seeded slot order through hand_rank() and hand_rank_validated(). Non-trivial values = those not at either end of their class range (the suite pins ends); distinct = distinct values / subsets".into();
    run.assume("enum variants are compared by their Debug text against the documented spellings (Trey, Deuce, ...): renaming a variant is meant to be reported");
    super::regress::replay_dir(run, "C06", check_case)?;
    {
        let items: Vec<u16> = (0..=7470u16).chain((7471..=u16::MAX).step_by(97)).chain([8192, 8193, 16384, 32768, 65535]).collect();
        disturbance_pass(run, &items, &|v| value_clauses(*v).map_err(|(c, m)| format!("{}: {}", c, m)), &|v| ("C06.value".into(), json!({"value": v}), format!("value={}", v)))?;
    }
    // values
    let mut interior = 0u64;
    let mut samples = Vec::new();
    for v in 0..=u16::MAX {
        if let Err((cl, m)) = value_clauses(v) {
            run.generator("all 16-bit values", "exhaustive", Some(65536), v as u64 + 1, interior, "");
            return run.violation(cl, &format!("value={}", v), json!({"value": v}), &m);
        }
        let (_, c) = model_text(v);
        let prev = if v > 0 { model_text(v - 1).1 } else { String::new() };
        let next = if v < u16::MAX { model_text(v + 1).1 } else { String::new() };
        if c == prev && c == next {
            interior += 1;
            if samples.len() < 3 && v % 1500 == 700 {
                samples.push(json!({"value": v, "category": model_text(v).0, "class": c}));
            }
        }
    }
    run.generator("all 16-bit values", "exhaustive", Some(65536), 65536, interior, "non-trivial = values strictly inside a class range (both neighbours have the same class), including the interior of the invalid range");
    for s in samples {
        run.sample(s);
    }
    if HandRank::default() != HandRank::from(0) {
        run.violation("C06.default", "default", json!({"value": 0}), "HandRank::default() differs from HandRank::from(0)")?;
    }
    if !run.is_twin() {
        // conversion must not depend on the previous conversion: every ordered pair (a, b), a converted
        // immediately before b; expected[b] was compared with the model's text above
        use rayon::prelude::*;
        let expected: Vec<HandRank> = (0..=u16::MAX).map(HandRank::from).collect();
        for v in 0..=u16::MAX {
            let (mn, mc) = model_text(v);
            let e = expected[v as usize];
            if format!("{:?}", e.name) != mn || format!("{:?}", e.class) != mc || e.value != v {
                return run.violation("C06.sequence", &format!("{}->{}", v.wrapping_sub(1), v), json!({"a": v.wrapping_sub(1), "b": v}), &format!("HandRank::from({}) converted right after from({}) is {:?}/{:?}, expected {}/{}", v, v.wrapping_sub(1), e.name, e.class, mn, mc));
            }
        }
        let all = run.tier == Tier::Thorough;
        // class boundaries: first and last value of every class, and their neighbours
        let mut boundary: Vec<u16> = Vec::new();
        for v in 1..=7463u16 {
            if expected[v as usize].class != expected[v as usize - 1].class {
                boundary.extend([v - 1, v]);
            }
        }
        boundary.dedup();
        let row = |b: usize| -> Option<(usize, usize)> {
            // predecessors of b: every value (thorough) or the values a key, mask or range test
            // would plausibly conflate with b, plus every class boundary (quick)
            let partners: Vec<u16> = if all { (0..=u16::MAX).collect() } else { engine::u16_partners(b as u16).into_iter().chain(boundary.iter().copied().filter(|_| b % 64 == 0 || boundary.binary_search(&(b as u16)).is_ok())).collect() };
            for a in partners {
                std::hint::black_box(HandRank::from(a));
                if HandRank::from(b as u16) != expected[b] {
                    return Some((a as usize, b));
                }
            }
            None
        };
        // quick: one thread, so that a really is the call before b; thorough: rows over all threads
        let bad = if all { (0..65536usize).into_par_iter().find_map_first(row) } else { (0..65536usize).find_map(row) };
        let npairs: u64 = if all { 1 << 32 } else { 65536 * 60 + (65536 / 64 + boundary.len() as u64) * boundary.len() as u64 };
        run.generator(if all { "all ordered pairs of values, converted back to back" } else { "related ordered pairs of values, converted back to back" }, "exhaustive (histories of length 2)", Some(1 << 32), npairs, npairs, "from(a) immediately followed by from(b), b's rank compared with the model-checked expectation; quick: a ranges over bit flips, offsets, shifts, truncations of b and the class boundaries; thorough: every a");
        if let Some((a, b)) = bad {
            let m = pair_sequence(a as u16, b as u16).err().unwrap_or_else(|| format!("HandRank::from({}) gave a wrong rank right after from({}) during the parallel sweep; the two-call sequence does not reproduce on its own", b, a));
            return run.violation("C06.sequence", &format!("{}->{}", a, b), json!({"a": a, "b": b}), &m);
        }
    }
    // variants: every non-Invalid class labels one contiguous, non-empty range; same for names
    let classes: Vec<HandRankClass> = HandRankClass::iter().collect();
    let names: Vec<HandRankName> = HandRankName::iter().collect();
    let cls_of: Vec<HandRankClass> = (0..=u16::MAX).map(|v| HandRank::from(v).class).collect();
    let nm_of: Vec<HandRankName> = (0..=u16::MAX).map(|v| HandRank::from(v).name).collect();
    let mut used = 0u64;
    for c in &classes {
        let vs: Vec<usize> = (0..65536).filter(|v| cls_of[*v] == *c).collect();
        let text = format!("{:?}", c);
        if text == "Invalid" {
            continue;
        }
        if vs.is_empty() {
            run.violation("C06.variant", &text, json!({"class": text}), &format!("class {} is the class of no value", text))?;
            continue;
        }
        if vs[vs.len() - 1] - vs[0] + 1 != vs.len() {
            run.violation("C06.variant", &text, json!({"class": text}), &format!("class {} labels a non-contiguous set of values ({}..{} with gaps)", text, vs[0], vs[vs.len() - 1]))?;
        }
        used += 1;
        run.class("class range widths: 1", (vs.len() == 1) as u64);
        run.class("class range widths: 2..=12", (vs.len() >= 2 && vs.len() <= 12) as u64);
        run.class("class range widths: 13..", (vs.len() > 12) as u64);
    }
    for n in &names {
        let vs: Vec<usize> = (0..65536).filter(|v| nm_of[*v] == *n).collect();
        let text = format!("{:?}", n);
        if text == "Invalid" {
            continue;
        }
        if vs.is_empty() || vs[vs.len() - 1] - vs[0] + 1 != vs.len() {
            run.violation("C06.variant", &text, json!({"name": text}), &format!("category {} does not label one contiguous non-empty value range", text))?;
        }
    }
    run.generator("enum variants (EnumIter)", "exhaustive", Some((classes.len() + names.len()) as u64), (classes.len() + names.len()) as u64, used, "309 non-Invalid classes + 9 categories expected");
    if classes.len() != 310 || names.len() != 10 {
        run.violation("C06.variant", "count", json!({"classes": classes.len(), "names": names.len()}), &format!("{} class variants and {} category variants, expected 310 and 10 (with Invalid)", classes.len(), names.len()))?;
    }
    {
        let expected: Vec<HandRank> = (0..=u16::MAX).map(HandRank::from).collect();
        count_soak(run, "HandRank::from over all values, repeatedly", (1 << 27) + (1 << 12), &|n| {
            let v = (n.wrapping_mul(40503) % 65536) as u16;
            let r = HandRank::from(v);
            if r != expected[v as usize] || r.value != v {
                return Err(format!("HandRank::from({}) = {:?}/{:?} value {}, earlier in this process it was {:?}/{:?}", v, r.name, r.class, r.value, expected[v as usize].name, expected[v as usize].class));
            }
            Ok(())
        })?;
    }
    // hands
    let ranks: Vec<HandRank> = (0..=7462u16).map(HandRank::from).collect();
    hands::<5>(run, 1, &ranks)?;
    hands::<6>(run, 1, &ranks)?;
    hands::<7>(run, if run.tier == Tier::Thorough { 1 } else if run.is_twin() { 32 } else { 8 }, &ranks)?;
    run.exhaustive = run.tier == Tier::Thorough;
    run.exhaustive_note = "all 65,536 values and all five-/six-card hands always; seven-card hands completely in the thorough tier".into();
    Ok(())
}

pub fn check_case(clause: &str, case: &Value) -> Result<(), String> {
    if clause.ends_with(".soak") {
        return Err("the conversion soak is replayed by running ./check C06 quick".into());
    }
    if clause.ends_with(".after_disturbance") || clause.ends_with(".concurrent") || clause.ends_with(".concurrent_cold_start") || clause.ends_with(".after_repetition") {
        return replay_after_disturbance(case, check_case);
    }
    match clause {
        "C06.hand" => hand_clause(&engine::parse_words(&case["words"])?),
        "C06.sequence" => pair_sequence(case["a"].as_u64().ok_or("a")? as u16, case["b"].as_u64().ok_or("b")? as u16),
        "C06.default" => {
            if HandRank::default() != HandRank::from(0) {
                Err("HandRank::default() differs from HandRank::from(0)".into())
            } else {
                Ok(())
            }
        }
        "C06.variant" => {
            // re-derive: which values carry that text
            let text = case["class"].as_str().or(case["name"].as_str()).unwrap_or("");
            let vs: Vec<usize> = (0..65536usize).filter(|v| format!("{:?}", HandRank::from(*v as u16).class) == text || format!("{:?}", HandRank::from(*v as u16).name) == text).collect();
            if vs.is_empty() || vs[vs.len() - 1] - vs[0] + 1 != vs.len() {
                return Err(format!("{} does not label one contiguous non-empty value range", text));
            }
            Ok(())
        }
        _ => {
            let v = case["value"].as_u64().ok_or("value missing")? as u16;
            value_clauses(v).map_err(|(c, m)| format!("{}: {}", c, m))
        }
    }
}

