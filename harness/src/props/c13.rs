//! C13 — flush, straight and wheel predicates agree with the hand's actual category.

use super::common::*;
use crate::engine::enumerate::{choose, par_tuples, Acc};
use crate::engine::{self, guard, mix2, perm_from_index, PResult, Run, Tier};
use crate::model::{card, poker};
use ckc_rs::cards::five::Five;
use ckc_rs::cards::HandRanker;
use serde_json::{json, Value};

/// Absence soak: the boundary classes are asked a few times each (so that whatever remembers them is
/// warm), one unrelated hand is asked 2^24 + 2^12 times, then every class is asked again; two rounds.
fn absence_soak() -> Option<([u32; 5], String)> {
    let t = poker::tables();
    let reps: Vec<[u32; 5]> = (1..=7462usize).map(|v| words_of_ci(&t.rep[v])).collect();
    let special: Vec<usize> = (1..=10usize).chain(1600..=1609).chain([323, 1599, 1610, 6186, 6190, 7462]).collect();
    let mut bad: Option<([u32; 5], String)> = None;
    'rounds: for round in 0..2 {
        for o in &special {
            for _ in 0..12 {
                std::hint::black_box((Five::from(reps[o - 1]).is_straight(), Five::from(reps[o - 1]).is_flush()));
            }
        }
        let z = reps[6500 + round * 300];
        let zm = model(&z);
        for _ in 0..((1u64 << 24) + (1 << 12)) {
            let h = Five::from(z);
            if h.is_straight() != zm.straight || h.is_flush() != zm.flush {
                bad = Some((z, format!("during a soak of 2^24 lookups of [{}] a predicate changed its answer", card::render_hand(&z))));
                break 'rounds;
            }
        }
        for w in &reps {
            if let Err((cl, m)) = examine(w) {
                bad = Some((*w, format!("after the boundary classes had been asked 12 times each and [{}] 2^24 + 2^12 times: {}: {}", card::render_hand(&z), cl, m)));
                break 'rounds;
            }
        }
    }
    bad
}

/// a five-card hand whose OR of rank bits is `pattern` (2..=5 bits below 2^13): extra slots repeat the lowest rank
fn hand_of_pattern(pattern: u32) -> Option<[u32; 5]> {
    let ranks: Vec<u32> = (0..13).filter(|r| pattern >> r & 1 == 1).collect();
    if pattern >> 13 != 0 || ranks.len() < 2 || ranks.len() > 5 {
        return None;
    }
    let mut ws = [0u32; 5];
    let extra = 5 - ranks.len();
    for i in 0..=extra {
        ws[i] = card::word(ranks[0], i as u32);
    }
    for (j, r) in ranks.iter().enumerate().skip(1) {
        ws[extra + j] = card::word(*r, (j as u32 + 1) % 4);
    }
    Some(ws)
}

const EXACT_COUNTS: [u64; 6] = [255, 256, 257, 65_535, 65_536, 65_537];
/// codes of the exact-count children: 6 counts x 13 bit positions x plus/minus x direction
const EXACT_CODES: usize = 6 * 13 * 2 * 2;

/// Exact-count histories, one fresh process per code: every hand X of the code's family is asked exactly c
/// times as the first thing that is ever asked about it (c on both sides of 2^8 and 2^16), then one hand whose
/// rank pattern, read as a number, is X's plus or minus 2^k and whose answer differs (a use counter that carries
/// into, or borrows from, the field next to it). Deterministic, one thread.
fn exact_count_family(code: usize) -> (u64, Option<([u32; 5], String)>) {
    let c = EXACT_COUNTS[code % 6];
    let k = (code / 6) % 13;
    let minus = (code / 78) % 2 == 1;
    let from_straight = (code / 156) % 2 == 1;
    let straights: Vec<u32> = (0..9).map(|k| 0b11111u32 << k).chain([0b1_0000_0000_1111]).collect();
    let mut calls = 0u64;
    for s in &straights {
        let other = if minus { s.wrapping_sub(1 << k) } else { s.wrapping_add(1 << k) };
        if hand_of_pattern(other).is_none() || straights.contains(&other) {
            continue;
        }
        let (x, probe) = if from_straight { (*s, other) } else { (other, *s) };
        let xw = hand_of_pattern(x).unwrap();
        let pw = hand_of_pattern(probe).unwrap();
        for _ in 0..c {
            let h = Five::from(xw);
            std::hint::black_box((h.is_straight(), h.is_flush(), h.is_straight_flush()));
        }
        calls += c + 1;
        if let Err((cl, m)) = examine(&pw) {
            return (calls, Some((pw, format!("in a fresh process, after [{}] had been asked {} times in a row: {}: {}", card::render_hand(&xw), c, cl, m))));
        }
    }
    (calls, None)
}

struct M {
    flush: bool,
    straight: bool,
    wheel: bool,
    or_rank: u32,
    and_bits: u32,
    span5_paired: bool,
}

fn model(ws: &[u32; 5]) -> M {
    let d: Vec<(u32, u32)> = ws.iter().map(|w| card::decode(*w).expect("card")).collect();
    let flush = d.iter().all(|x| x.1 == d[0].1);
    let mut or_rank = 0u32;
    for x in &d {
        or_rank |= 1 << x.0;
    }
    let distinct = or_rank.count_ones() == 5;
    let hi = 31 - or_rank.leading_zeros();
    let lo = or_rank.trailing_zeros();
    let wheel = or_rank == 0b1_0000_0000_1111;
    let straight = distinct && (hi - lo == 4 || wheel);
    let and_bits = ws.iter().fold(u32::MAX, |a, w| a & *w);
    M { flush, straight, wheel, or_rank, and_bits, span5_paired: !distinct && hi - lo == 4 }
}

fn examine(ws: &[u32; 5]) -> Result<(), (&'static str, String)> {
    let m = model(ws);
    let h = Five::from(*ws);
    let hand = card::render_hand(ws);
    let g = |what: &'static str, f: &dyn Fn() -> bool| -> Result<bool, (&'static str, String)> { guard(|| f()).map_err(|e| ("C13.no_panic", format!("Five::{} on [{}] panicked: {}", what, hand, e))) };
    let fl = g("is_flush", &|| h.is_flush())?;
    if fl != m.flush {
        return Err(("C13.flush", format!("Five::is_flush on [{}] is {}, the cards {} share one suit", hand, fl, if m.flush { "do" } else { "do not" })));
    }
    let st = g("is_straight", &|| h.is_straight())?;
    if st != m.straight {
        return Err(("C13.straight", format!("Five::is_straight on [{}] is {}, but the five ranks are {}distinct and consecutive", hand, st, if m.straight { "" } else { "not " })));
    }
    let sf = g("is_straight_flush", &|| h.is_straight_flush())?;
    if sf != (m.flush && m.straight) {
        return Err(("C13.straight_flush", format!("Five::is_straight_flush on [{}] is {}, expected {}", hand, sf, m.flush && m.straight)));
    }
    let wh = g("is_wheel", &|| h.is_wheel())?;
    if wh != m.wheel {
        return Err(("C13.wheel", format!("Five::is_wheel on [{}] is {}, expected {}", hand, wh, m.wheel)));
    }
    let name = format!("{:?}", guard(|| h.hand_rank().name).map_err(|e| ("C13.no_panic", format!("hand_rank panicked: {}", e)))?);
    let (is_sf, is_f, is_s) = (name == "StraightFlush", name == "Flush", name == "Straight");
    if is_sf != (fl && st) || is_f != (fl && !st) || is_s != (st && !fl) {
        return Err(("C13.category", format!("[{}] ranks as {} but is_flush = {} and is_straight = {}", hand, name, fl, st)));
    }
    let orb = guard(|| h.or_rank_bits()).map_err(|e| ("C13.no_panic", e))?;
    if orb != m.or_rank {
        return Err(("C13.bits", format!("Five::or_rank_bits on [{}] = {:#b}, expected {:#b}", hand, orb, m.or_rank)));
    }
    let ab = guard(|| h.and_bits()).map_err(|e| ("C13.no_panic", e))?;
    if ab != m.and_bits {
        return Err(("C13.bits", format!("Five::and_bits on [{}] = {:#x}, expected {:#x}", hand, ab, m.and_bits)));
    }
    #[allow(deprecated)]
    {
        let dfl = guard(|| ckc_rs::evaluate::is_flush(*ws)).map_err(|e| ("C13.no_panic", e))?;
        let dor = guard(|| ckc_rs::evaluate::or_rank_bits(*ws)).map_err(|e| ("C13.no_panic", e))?;
        if dfl != fl || dor != orb as usize {
            return Err(("C13.deprecated", format!("deprecated evaluate::is_flush / or_rank_bits on [{}] = {} / {:#b}, the methods give {} / {:#b}", hand, dfl, dor, fl, orb)));
        }
    }
    Ok(())
}

struct A {
    n: u64,
    nontrivial: u64,
    classes: [u64; 5],
    fail: Option<([u32; 5], &'static str, String)>,
    sample: Option<[u32; 5]>,
}
impl Acc for A {
    fn merge(&mut self, o: Self) {
        self.n += o.n;
        self.nontrivial += o.nontrivial;
        for i in 0..5 {
            self.classes[i] += o.classes[i];
        }
        if self.fail.is_none() {
            self.fail = o.fail;
        }
        if self.sample.is_none() {
            self.sample = o.sample;
        }
    }
    fn failed(&self) -> bool {
        self.fail.is_some()
    }
}

pub fn run(run: &mut Run) -> PResult {
    run.rule = "every five-card subset in canonical order plus seeded slot orders (quick 1, thorough 4): is_flush / is_straight / is_straight_flush / is_wheel against definitions computed from the documented card fields, agreement with the category obtained by ranking the same hand, or_rank_bits / and_bits against their definitions, deprecated free functions against the methods. Non-trivial = straights, flushes and the hands with a repeated rank whose distinct ranks span exactly five places (where a span test and a real straight test differ); distinct = distinct subsets".into();
    if let Some(code) = run.cold {
        if (3000..5000).contains(&code) {
            match exact_count_family(code - 3000) {
                (calls, None) => println!("FRESHRESULT ok {}", calls),
                (_, Some((w, m))) => println!("FRESHRESULT fail {}", json!({"hand": hand_json(&w), "message": m})),
            }
            return Ok(());
        }
    }
    super::regress::replay_dir(run, "C13", check_case)?;
    // (runs first: later generators leave whatever the code under test remembers saturated)
    if !run.is_twin() && run.cold.is_none() {
        let bad = absence_soak();
        run.generator("absence soak: boundary classes warmed, one unrelated hand asked 2^24 + 2^12 times, then every class", "call-count soak", None, 2 * ((1u64 << 24) + (1 << 12)), 0, "periodic maintenance of whatever remembers earlier answers; two rounds");
        if let Some((w, m)) = bad {
            return run.violation("C13.after_soak", &card::render_hand(&w), hand_json(&w), &m);
        }
    }
    if !run.is_twin() && run.cold.is_none() {
        let codes: Vec<usize> = (0..EXACT_CODES).map(|c| 3000 + c).collect();
        let (ran, calls, bad) = run.fresh_children(&codes, false);
        run.generator("exact-count histories, a fresh process each: a hand asked exactly 2^8-1 .. 2^8+1 / 2^16-1 .. 2^16+1 times, then a hand whose rank pattern is that one +- a power of two", "call-count soak", None, calls, 0, &format!("{} of {} child processes reported; all pairs (straight, non-straight) whose rank patterns differ by a power of two, both directions", ran, EXACT_CODES));
        if let Some((code, v)) = bad {
            let sig = v["hand"]["cards"].as_str().unwrap_or("").to_string();
            return run.violation("C13.after_exact_count", &sig, json!({"cards": v["hand"]["cards"], "words": v["hand"]["words"], "cold_code": code}), v["message"].as_str().unwrap_or(""));
        }
    }
    {
        let t = poker::tables();
        let items: Vec<[u32; 5]> = (1..=7462usize).map(|v| words_of_ci(&t.rep[v])).collect();
        disturbance_pass(run, &items, &|w| examine(w).map_err(|(c, m)| format!("{}: {}", c, m)), &|w| ("C13.predicates".into(), hand_json(w), card::render_hand(w)))?;
        // the hands on both sides of the straight / not-a-straight boundary are the ones a hit counter
        // carrying into a neighbouring rank pattern would make visible: all 20 straight classes and
        // the classes next to them, 66,000 lookups each
        let mut picks: Vec<(usize, usize)> = Vec::new();
        for o in (1..=10usize).chain(1600..=1609) {
            picks.push((o - 1, 66_000));
        }
        for o in [323usize, 324, 6186, 6187, 6190, 6200, 1599, 1610, 7462] {
            picks.push((o - 1, 66_000));
        }
        repetition_soak(run, &items, &picks, &|w| examine(w).map_err(|(c, m)| format!("{}: {}", c, m)), &|w| ("C13.predicates".into(), hand_json(w), card::render_hand(w)))?;
    }
    if !run.is_twin() {
        // call sequences: the predicates (deprecated free functions included) must not depend on earlier calls
        use super::multi::{neighbour, NEIGHBOUR_KINDS};
        use proptest::prelude::*;
        let st = engine::RStats::new();
        let cases: u32 = if run.tier == Tier::Thorough { 1_000_000 } else { 150_000 };
        let total = choose(52, 5);
        let strat = (0..total, 0u8..NEIGHBOUR_KINDS, any::<u64>(), 0u8..NEIGHBOUR_KINDS, any::<u64>());
        let build = |(idx, k1, p1, k2, p2): (u64, u8, u64, u8, u64)| -> Vec<[u32; 5]> {
            let a = crate::engine::enumerate::unrank::<5>(52, idx);
            let b = neighbour(&a, k1, p1);
            let c = neighbour(&b, k2, p2);
            [a, b, a, c, b, a].iter().map(words_of_ci).collect()
        };
        let seq_check = |seq: &[[u32; 5]]| -> Result<(), String> {
            // warm-up on an unrelated hand
            let _ = examine(&words_of_ci(&[51u8, 47, 43, 39, 2]));
            for (i, w) in seq.iter().enumerate() {
                examine(w).map_err(|(cl, m)| format!("call {} of a sequence: {}: {}", i + 1, cl, m))?;
            }
            Ok(())
        };
        let res = crate::engine::pt::run(run.seed, 0xC13_5E, cases, &strat, |v| {
            let seq = build(v);
            st.note(mix2(v.0, mix2(v.2 ^ v.1 as u64, v.4 ^ v.3 as u64)), true, None, || json!({"sequence": seq.iter().map(|h| card::render_hand(h)).collect::<Vec<_>>()}));
            seq_check(&seq).map_err(|e| {
                st.freeze();
                e
            })
        });
        st.flush(run, "call sequences over neighbour hands (A B A C B A), all predicates per call", "proptest (histories)", None, "neighbours as in C02 (incl. two same-suited cards moved to another suit)");
        if let Err(f) = res {
            let seq = build(f.value);
            let mut cur = seq.clone();
            for n in 1..=seq.len() {
                if seq_check(&seq[..n]).is_err() {
                    cur = seq[..n].to_vec();
                    break;
                }
            }
            let mut i = 0;
            while cur.len() > 1 && i + 1 < cur.len() {
                let mut cand = cur.clone();
                cand.remove(i);
                if seq_check(&cand).is_err() {
                    cur = cand;
                } else {
                    i += 1;
                }
            }
            let m = seq_check(&cur).err().unwrap_or_else(|| "not reproducible".into());
            let sig = cur.iter().map(|h| card::render_hand(h)).collect::<Vec<_>>().join(" ; ");
            return run.violation("C13.sequence", &sig, json!({"sequence": cur.iter().map(|h| hand_json(h)).collect::<Vec<_>>()}), &m);
        }
        // every ordered pair of class representatives
        let t = poker::tables();
        let items: Vec<[u32; 5]> = (1..=7462usize).map(|v| words_of_ci(&t.rep[v])).collect();
        let hit = engine::ordered_pairs(
            &items,
            &|a| {
                let h = Five::from(*a);
                #[allow(deprecated)]
                std::hint::black_box((h.is_flush(), h.is_straight(), h.is_straight_flush(), h.is_wheel(), ckc_rs::evaluate::is_flush(*a), ckc_rs::evaluate::or_rank_bits(*a)));
            },
            &|b| {
                let m = model(b);
                let h = Five::from(*b);
                #[allow(deprecated)]
                let ok = h.is_flush() == m.flush && h.is_straight() == m.straight && h.is_straight_flush() == (m.flush && m.straight) && h.is_wheel() == m.wheel && h.or_rank_bits() == m.or_rank && h.and_bits() == m.and_bits && ckc_rs::evaluate::is_flush(*b) == m.flush && ckc_rs::evaluate::or_rank_bits(*b) == m.or_rank as usize;
                if ok {
                    Ok(())
                } else {
                    examine(b).map_err(|(cl, msg)| format!("{}: {}", cl, msg)).and(Err("a predicate gave a wrong answer that does not reproduce when the call is repeated".to_string()))
                }
            },
        );
        let n = items.len() as u64;
        run.generator("all ordered pairs of class representatives, predicates back to back", "exhaustive (histories of length 2)", Some(n * n), n * n, n * n - n, "items = one hand per strength class");
        if let Some((a, b, m)) = hit {
            let sig = format!("{} ; {}", card::render_hand(&items[a]), card::render_hand(&items[b]));
            return run.violation("C13.sequence", &sig, json!({"sequence": [hand_json(&items[a]), hand_json(&items[b])]}), &format!("after the predicates were called on [{}]: {}", card::render_hand(&items[a]), m));
        }
    }
    count_soak(run, "predicates on class representatives", (1 << 25) + (1 << 12), &soak_step)?;
    let orders = if run.tier == Tier::Thorough { 4 } else { 1 };
    let seed = run.seed;
    let t = poker::tables();
    let acc = par_tuples::<5, A>(52, true, || A { n: 0, nontrivial: 0, classes: [0; 5], fail: None, sample: None }, |acc, c| {
        let w = words_of_ci(c);
        let m = model(&w);
        acc.n += 1;
        let p = super::multi::pack(c);
        let nt = m.flush || m.straight || m.span5_paired;
        if nt {
            acc.nontrivial += 1;
        }
        acc.classes[0] += m.flush as u64;
        acc.classes[1] += m.straight as u64;
        acc.classes[2] += m.wheel as u64;
        acc.classes[3] += m.span5_paired as u64;
        acc.classes[4] += (m.flush && m.straight) as u64;
        let cat = poker::cat_of_ord(t, poker::ord5_sorted(t, *c));
        for k in 0..=orders {
            let a = if k == 0 { w } else { engine::apply_perm(&w, &perm_from_index::<5>(mix2(seed ^ (0xC13 + k as u64), p) % 120)) };
            let r = guard(|| {
                let h = Five::from(a);
                let (fl, st) = (h.is_flush(), h.is_straight());
                #[allow(deprecated)]
                let dep = ckc_rs::evaluate::is_flush(a) == fl && ckc_rs::evaluate::or_rank_bits(a) == h.or_rank_bits() as usize;
                let name = h.hand_rank().name as u8;
                // StraightFlush = 0, Flush = 3, Straight = 4 in declaration order: checked by text in examine()
                let _ = name;
                fl == m.flush && st == m.straight && h.is_straight_flush() == (m.flush && m.straight) && h.is_wheel() == m.wheel && h.or_rank_bits() == m.or_rank && h.and_bits() == m.and_bits && dep
            });
            let mut bad = r != Ok(true);
            if !bad {
                // category agreement through the model's category of the same hand and the crate's rank text
                let want_sf = cat == poker::CAT_SF;
                let want_f = cat == poker::CAT_FLUSH;
                let want_s = cat == poker::CAT_STRAIGHT;
                bad = want_sf != (m.flush && m.straight) || want_f != (m.flush && !m.straight) || want_s != (m.straight && !m.flush);
                if bad {
                    panic!("model category and model predicates disagree on {:?}", c);
                }
            }
            if bad || (nt && k == 0) {
                // slow path: always for the non-trivial hands (also checks the crate's own category text)
                if let Err((cl, msg)) = examine(&a) {
                    acc.fail = Some((a, cl, msg));
                    return false;
                }
                if bad {
                    let msg = engine::unstable_message(&format!("five-card hand [{}]", card::render_hand(&a)), || {
                        guard(|| {
                            let h = Five::from(a);
                            #[allow(deprecated)]
                            let dep = ckc_rs::evaluate::is_flush(a) == h.is_flush() && ckc_rs::evaluate::or_rank_bits(a) == h.or_rank_bits() as usize;
                            h.is_flush() == m.flush && h.is_straight() == m.straight && h.is_straight_flush() == (m.flush && m.straight) && h.is_wheel() == m.wheel && h.or_rank_bits() == m.or_rank && h.and_bits() == m.and_bits && dep
                        }) == Ok(true)
                    });
                    acc.fail = Some((a, "C13.unstable", msg));
                    return false;
                }
            }
        }
        if acc.sample.is_none() && m.span5_paired && p % 211 == 3 {
            acc.sample = Some(w);
        }
        true
    });
    run.generator(&format!("five-subsets, canonical + {} seeded orders", orders), "exhaustive", Some(choose(52, 5)), acc.n, acc.nontrivial, "cases = subsets");
    run.class("flush (incl. straight flush)", acc.classes[0]);
    run.class("straight (incl. straight flush)", acc.classes[1]);
    run.class("wheel", acc.classes[2]);
    run.class("repeated rank, distinct ranks span five places", acc.classes[3]);
    run.class("straight flush", acc.classes[4]);
    if let Some(w) = acc.sample {
        run.sample(json!({"cards": card::render_hand(&w), "is_straight": false, "note": "paired hand whose ranks span five places"}));
    }
    if let Some((w, cl, m)) = &acc.fail {
        let mut s = w.to_vec();
        s.sort_unstable_by(|a, b| b.cmp(a));
        return run.violation(cl, &card::render_hand(&s), hand_json(w), m);
    }
    // every hand: category text agreement for the trivial hands too (neither flush nor straight => name is none of the three)
    run.exhaustive = true;
    run.exhaustive_note = "all 2,598,960 five-card hands; slot orders sampled (the predicates are symmetric bit operations)".into();
    Ok(())
}

pub fn check_case(clause: &str, case: &Value) -> Result<(), String> {
    if clause == "C13.after_exact_count" {
        // replayed in a fresh process, like the original
        let code = case["cold_code"].as_u64().unwrap_or(3000) as usize;
        let run = Run::new("C13", Tier::Quick, 0);
        return match run.fresh_children(&[code], false).2 {
            Some((_, v)) => Err(v["message"].as_str().unwrap_or("").to_string()),
            None => Ok(()),
        };
    }
    if clause == "C13.after_soak" {
        // the soak is deterministic on one thread: replayed as a whole
        return match absence_soak() {
            Some((_, m)) => Err(m),
            None => Ok(()),
        };
    }
    if clause.ends_with(".soak") {
        return replay_soak(case, &soak_step);
    }
    if clause.ends_with(".after_disturbance") || clause.ends_with(".concurrent") || clause.ends_with(".concurrent_cold_start") || clause.ends_with(".after_repetition") {
        return super::common::replay_after_disturbance(case, check_case);
    }
    if clause == "C13.sequence" {
        let _ = examine(&words_of_ci(&[51u8, 47, 43, 39, 2]));
        for (i, h) in case["sequence"].as_array().ok_or("sequence")?.iter().enumerate() {
            let ws = engine::parse_words(&h["words"])?;
            cis_of(&ws)?;
            examine(&arr::<5>(&ws)?).map_err(|(c, m)| format!("call {} of the sequence: {}: {}", i + 1, c, m))?;
        }
        return Ok(());
    }
    let ws = engine::parse_words(&case["words"])?;
    cis_of(&ws)?;
    examine(&arr::<5>(&ws)?).map_err(|(c, m)| format!("{}: {}", c, m))
}

/// soak step n: the predicates on the representative of class (n mod 7462), in a slot order derived from n
pub fn soak_step(n: u64) -> Result<(), String> {
    let t = poker::tables();
    let c = t.rep[1 + (n % 7462) as usize];
    let w = crate::engine::apply_perm(&words_of_ci(&c), &crate::engine::perm_from_index::<5>((n / 7462) % 120));
    let m = model(&w);
    let h = Five::from(w);
    #[allow(deprecated)]
    let ok = h.is_flush() == m.flush && h.is_straight() == m.straight && h.is_straight_flush() == (m.flush && m.straight) && h.is_wheel() == m.wheel && ckc_rs::evaluate::is_flush(w) == m.flush;
    if ok {
        Ok(())
    } else {
        examine(&w).map_err(|(c, msg)| format!("{}: {}", c, msg)).and(Err(format!("a predicate on [{}] gave a wrong answer", card::render_hand(&w))))
    }
}
