//! C15 — card bit-sets behave as sets; C16 — two-card hand from a bit-set.

use super::common::*;
use crate::engine::{self, guard, hash_words, mix, pt, PResult, Run, Tier};
use crate::model::{card, text};
use ckc_rs::cards::binary_card::{BinaryCard, BC64};
use ckc_rs::cards::five::Five;
use ckc_rs::cards::four::Four;
use ckc_rs::cards::seven::Seven;
use ckc_rs::cards::six::Six;
use ckc_rs::cards::three::Three;
use ckc_rs::cards::two::Two;
use ckc_rs::HandError;
use proptest::prelude::*;
use serde_json::{json, Value};
use std::cell::Cell;

const ALL52: u64 = (1u64 << 52) - 1;

// ------------------------------------------------------------------------------------------
// M-set

fn m_from_words(ws: &[u32]) -> u64 {
    ws.iter().fold(0u64, |m, w| m | card::bit_of(*w))
}

fn m_valid(x: u64) -> bool {
    x != 0 && (x >> 52) == 0
}

/// (peeled bit or 0, set afterwards)
fn m_peel(x: u64) -> (u64, u64) {
    let low = x & ALL52;
    if low == 0 {
        return (0, x);
    }
    let b = 1u64 << (63 - low.leading_zeros());
    (b, x & !b)
}

// ------------------------------------------------------------------------------------------
// clauses

fn from_hand_clause(ws: &[u32]) -> Result<(), String> {
    let want = m_from_words(ws);
    let got = match ws.len() {
        2 => guard(|| BinaryCard::from_two(Two::from(arr::<2>(ws).unwrap()))),
        3 => guard(|| BinaryCard::from_three(Three::from(arr::<3>(ws).unwrap()))),
        4 => guard(|| BinaryCard::from_four(Four::from(arr::<4>(ws).unwrap()))),
        5 => guard(|| BinaryCard::from_five(Five::from(arr::<5>(ws).unwrap()))),
        6 => guard(|| BinaryCard::from_six(Six::from(arr::<6>(ws).unwrap()))),
        7 => guard(|| BinaryCard::from_seven(Seven::from(arr::<7>(ws).unwrap()))),
        n => return Err(format!("size {}", n)),
    }
    .map_err(|m| format!("building a set from [{}] panicked: {}", card::render_hand(ws), m))?;
    if got != want {
        let missing = want & !got;
        let extra = got & !want;
        return Err(format!(
            "the set built from the {}-slot hand [{}] is {:#x}, expected {:#x} (exactly the distinct real cards among its slots; missing {:#x}, extra {:#x})",
            ws.len(),
            card::render_hand(ws),
            got,
            want,
            missing,
            extra
        ));
    }
    let n = got.number_of_cards();
    let mut d: Vec<u32> = ws.iter().copied().filter(|w| card::is_card(*w)).collect();
    d.sort_unstable();
    d.dedup();
    if n as usize != d.len() {
        return Err(format!("number_of_cards of the set of [{}] is {}, the hand holds {} distinct real cards", card::render_hand(ws), n, d.len()));
    }
    Ok(())
}

fn text_clause(s: &str) -> Result<(), String> {
    let got = guard(|| BinaryCard::from_index(s)).map_err(|m| format!("BinaryCard::from_index({:?}) panicked: {}", s, m))?;
    let want = text::tokens_with(super::c12::ws_def(), s).iter().fold(0u64, |m, t| m | card::bit_of(text::card_of_token(t)));
    if got != want {
        return Err(format!("BinaryCard::from_index({:?}) = {:#x}, expected {:#x} (the distinct real cards among its tokens)", s, got, want));
    }
    Ok(())
}

#[derive(Debug, Clone)]
pub enum Op {
    FoldIn(u64),
    Peel,
    Has(u64),
    Count,
    IsValid,
    IsSingle,
}

/// run a history against the model step by step
fn history_clause(start: u64, ops: &[Op]) -> Result<(), String> {
    let mut imp: u64 = start;
    let mut model: u64 = start;
    for (i, op) in ops.iter().enumerate() {
        let at = format!("step {} ({:?}) on set {:#x}", i + 1, op, model);
        match op {
            Op::FoldIn(x) => {
                let r = guard(|| imp.fold_in(*x)).map_err(|m| format!("{}: panicked: {}", at, m))?;
                model |= *x;
                if r != model {
                    return Err(format!("{}: fold_in gave {:#x}, union is {:#x}", at, r, model));
                }
                imp = r;
            }
            Op::Peel => {
                let (wb, wafter) = m_peel(model);
                let mut tmp = imp;
                let r = guard(|| {
                    let b = tmp.peel();
                    (b, tmp)
                })
                .map_err(|m| format!("{}: panicked: {}", at, m))?;
                if r.0 != wb {
                    return Err(format!("{}: peel returned {:#x}, the highest remaining card in deck order is {:#x}", at, r.0, wb));
                }
                if r.1 != wafter {
                    return Err(format!("{}: after peel the set is {:#x}, expected {:#x}", at, r.1, wafter));
                }
                imp = r.1;
                model = wafter;
            }
            Op::Has(x) => {
                let r = guard(|| imp.has(*x)).map_err(|m| format!("{}: panicked: {}", at, m))?;
                let w = model & *x == *x;
                if r != w {
                    return Err(format!("{}: has({:#x}) is {}, subset test says {}", at, x, r, w));
                }
            }
            Op::Count => {
                let r = guard(|| imp.number_of_cards()).map_err(|m| format!("{}: panicked: {}", at, m))?;
                if r != model.count_ones() {
                    return Err(format!("{}: number_of_cards is {}, the set has {} members", at, r, model.count_ones()));
                }
            }
            Op::IsValid => {
                let r = guard(|| BC64::is_valid(&imp)).map_err(|m| format!("{}: panicked: {}", at, m))?;
                if r != m_valid(model) {
                    return Err(format!("{}: is_valid is {}, expected {} (non-empty and no bits above the 52 card bits)", at, r, m_valid(model)));
                }
            }
            Op::IsSingle => {
                let r = guard(|| imp.is_single_card()).map_err(|m| format!("{}: panicked: {}", at, m))?;
                if r != (model.count_ones() == 1) {
                    return Err(format!("{}: is_single_card is {}, the set has {} members", at, r, model.count_ones()));
                }
            }
        }
        if imp != model {
            return Err(format!("{}: implementation set {:#x} differs from model set {:#x}", at, imp, model));
        }
    }
    Ok(())
}

/// complete peel sequence of a set: members in deck order, then blank three times, set unchanged
fn peel_all_clause(x: u64) -> Result<(), String> {
    let n = (x & ALL52).count_ones() as usize;
    let mut ops = vec![Op::Count, Op::IsValid, Op::IsSingle];
    for _ in 0..n + 3 {
        ops.push(Op::Peel);
    }
    ops.push(Op::Count);
    history_clause(x, &ops)?;
    // and as cards: the peeled sequence lists the members in deck order
    let mut s = x;
    let mut last_dp: i64 = -1;
    for _ in 0..n {
        let b = s.peel();
        let dp = 51 - b.trailing_zeros() as i64;
        if b.count_ones() != 1 || dp <= last_dp {
            return Err(format!("peeling {:#x} does not list the members in deck order (got bit {:#x} after deck position {})", x, b, last_dp));
        }
        last_dp = dp;
    }
    Ok(())
}

// ------------------------------------------------------------------------------------------
// C16

fn two_clause(x: u64) -> Result<(), String> {
    let got = guard(|| Two::try_from(x)).map_err(|m| format!("Two::try_from({:#x}) panicked: {}", x, m))?;
    let pc = x.count_ones();
    let want: Result<[u32; 2], HandError> = if pc < 2 {
        Err(HandError::NotEnoughCards)
    } else if pc > 2 {
        Err(HandError::TooManyCards)
    } else if x >> 52 != 0 {
        Err(HandError::InvalidBinaryFormat)
    } else {
        let hi = 63 - x.leading_zeros();
        let lo = x.trailing_zeros();
        Ok([card::DECK[51 - hi as usize], card::DECK[51 - lo as usize]])
    };
    match (&got, &want) {
        (Ok(t), Ok(w)) => {
            if t.to_arr() != *w {
                return Err(format!("Two::try_from({:#x}) = [{}], expected [{}] (the two cards in deck order)", x, card::render_hand(&t.to_arr()), card::render_hand(w)));
            }
            let back = BinaryCard::from_two(*t);
            if back != x {
                return Err(format!("Two::try_from({:#x}) converts back to {:#x}", x, back));
            }
            Ok(())
        }
        (Err(e), Err(w)) if e == w => Ok(()),
        _ => Err(format!(
            "Two::try_from({:#x}) ({} bits, {} above the card bits) = {:?}, expected {:?}",
            x,
            pc,
            (x >> 52).count_ones(),
            got.as_ref().map(|t| card::render_hand(&t.to_arr())),
            want.as_ref().map(|w| card::render_hand(w))
        )),
    }
}

// ------------------------------------------------------------------------------------------
// strategies

fn set_strategy() -> impl Strategy<Value = u64> {
    prop_oneof![
        2 => Just(0u64),
        1 => Just(ALL52),
        1 => Just(u64::MAX),
        6 => (0u32..52).prop_map(|b| 1u64 << b),
        3 => (0u32..13).prop_map(|r| (0..4).fold(0u64, |m, s| m | card::bit_of(card::word(r, s)))),
        10 => proptest::collection::vec(0u32..52, 0..=9).prop_map(|v| v.iter().fold(0u64, |m, b| m | (1u64 << b))),
        4 => (proptest::collection::vec(0u32..52, 0..=5), proptest::collection::vec(52u32..64, 1..=3)).prop_map(|(v, o)| v.iter().chain(o.iter()).fold(0u64, |m, b| m | (1u64 << b))),
        3 => any::<u64>(),
        2 => any::<u64>().prop_map(|x| x & ALL52),
        1 => (proptest::collection::vec(0u32..64, 0..=6)).prop_map(|v| !v.iter().fold(0u64, |m, b| m | (1u64 << b))),
    ]
}

fn op_strategy() -> impl Strategy<Value = Op> {
    prop_oneof![
        4 => set_strategy().prop_map(Op::FoldIn),
        6 => Just(Op::Peel),
        3 => set_strategy().prop_map(Op::Has),
        2 => Just(Op::Count),
        2 => Just(Op::IsValid),
        1 => Just(Op::IsSingle),
    ]
}

fn slot_strategy() -> impl Strategy<Value = u32> {
    prop_oneof![
        14 => (0usize..52).prop_map(|i| card::DECK[i]),
        3 => Just(0u32),
        1 => (0usize..52, 0u32..32).prop_map(|(i, b)| card::DECK[i] ^ (1 << b)),
        1 => (0usize..52, 1u32..8).prop_map(|(i, m)| card::DECK[i] | (m << 29)),
        1 => any::<u32>(),
    ]
}

/// texts of 30..160 tokens, mostly card spellings with many repeats
pub fn long_text_strategy() -> impl Strategy<Value = String> {
    (proptest::collection::vec((0usize..52, 0u8..8), 30..160), 0usize..52).prop_map(|(toks, hot)| {
        let mut s = String::new();
        for (i, (c, style)) in toks.iter().enumerate() {
            // half of the tokens come from a small "hot" window of the deck so that repeats are common
            let c = if style & 1 == 0 { (hot + c % 6) % 52 } else { *c };
            let w = card::DECK[c];
            let (r, s0) = card::decode(w).unwrap();
            let rc = card::RANK_CHARS[r as usize];
            let t = match style >> 1 {
                0 => format!("{}{}", rc, card::SUIT_GLYPHS[s0 as usize]),
                1 => format!("{}{}", rc, card::SUIT_LETTERS[s0 as usize]),
                2 => format!("{}{}", rc.to_ascii_lowercase(), card::SUIT_LETTERS[s0 as usize].to_ascii_lowercase()),
                _ => {
                    if i % 11 == 0 {
                        "zz".to_string()
                    } else {
                        format!("{}{}", rc, card::SUIT_LETTERS[s0 as usize])
                    }
                }
            };
            s.push_str(&t);
            s.push(if i % 7 == 3 { '\n' } else { ' ' });
        }
        s
    })
}

fn ops_json(ops: &[Op]) -> Value {
    json!(ops
        .iter()
        .map(|o| match o {
            Op::FoldIn(x) => json!({"fold_in": format!("{:#x}", x)}),
            Op::Peel => json!("peel"),
            Op::Has(x) => json!({"has": format!("{:#x}", x)}),
            Op::Count => json!("count"),
            Op::IsValid => json!("is_valid"),
            Op::IsSingle => json!("is_single"),
        })
        .collect::<Vec<_>>())
}

fn ops_from_json(v: &Value) -> Result<Vec<Op>, String> {
    let mut ops = Vec::new();
    for o in v.as_array().ok_or("ops must be an array")? {
        if let Some(s) = o.as_str() {
            ops.push(match s {
                "peel" => Op::Peel,
                "count" => Op::Count,
                "is_valid" => Op::IsValid,
                "is_single" => Op::IsSingle,
                _ => return Err(format!("unknown op {}", s)),
            });
        } else if let Some(x) = o.get("fold_in") {
            ops.push(Op::FoldIn(super::c14::parse_set(x)?));
        } else if let Some(x) = o.get("has") {
            ops.push(Op::Has(super::c14::parse_set(x)?));
        } else {
            return Err("unknown op".into());
        }
    }
    Ok(ops)
}

// ------------------------------------------------------------------------------------------

pub fn run(run: &mut Run) -> PResult {
    run.rule = "hands of 2..7 slots over {52 cards, blank} with repetition: every multiset of sizes 2 and 3 (thorough: 4), proptest hands of every size with forced repeats, blanks and a few non-card words; token texts; 64-bit sets: empty, full, singletons, rank groups, sets with overflow bits, sparse and dense random; histories of up to 80 operations (fold_in, peel, has, count, is_valid, is_single) run step by step against a u64 set model; for every generated set the complete peel sequence to exhaustion plus three extra peels. Non-trivial = hands with a duplicate, a blank or a non-card word / sets with >= 2 members or overflow bits / histories containing a peel after a fold-in; distinct by 64-bit hash".into();
    run.assume("number_of_cards on sets with overflow bits is compared with the plain population count (what Two::try_from's error classes rely on)");
    super::regress::replay_dir(run, "C15", check_case)?;
    {
        let mut sets: Vec<u64> = vec![0, ALL52, u64::MAX, !ALL52, 1 << 52, (1 << 52) | 1, 0x8000000000001];
        for b in (0..64).step_by(3) {
            sets.push(1u64 << b);
        }
        for r in 0..13 {
            sets.push((0..4).fold(0u64, |m, s| m | card::bit_of(card::word(r, s))));
        }
        disturbance_pass(run, &sets, &|x| peel_all_clause(*x), &|x| ("C15.peel_all".into(), json!({"set": format!("{:#x}", x)}), format!("{:#x}", x)))?;
        let d = card::DECK;
        let hands: Vec<Vec<u32>> = vec![vec![d[0], d[1]], vec![d[0], d[0]], vec![d[0], 0, d[51]], vec![d[3], d[3], d[4], 0], vec![d[0], d[1], d[2], d[3], d[4]], vec![d[5], d[6], d[7], d[8], d[9], d[5]], vec![d[0], d[13], d[26], d[39], d[12], d[51], d[51]], vec![0; 7], vec![d[7] | card::PAIR, d[7], u32::MAX, 1, d[8], d[9], d[10]]];
        disturbance_pass(run, &hands, &|ws| from_hand_clause(ws), &|ws| ("C15.from_hand".into(), hand_json(ws), card::render_hand(ws)))?;
    }
    let thorough = run.tier == Tier::Thorough;
    // E: all multisets of small sizes over cards + blank
    {
        let mut n = 0u64;
        let mut nt = 0u64;
        let sym = |i: usize| if i == 0 { 0 } else { card::BY_CI[i - 1] };
        let max_size = if thorough { 4 } else { 3 };
        for size in 2..=max_size {
            let mut c = vec![0usize; size];
            loop {
                let ws: Vec<u32> = c.iter().map(|i| sym(*i)).collect();
                n += 1;
                if c.contains(&0) || c.windows(2).any(|p| p[0] == p[1]) {
                    nt += 1;
                }
                if let Err(m) = from_hand_clause(&ws) {
                    run.generator("all multisets of small hands over cards + blank", "exhaustive", None, n, nt, "");
                    return run.violation("C15.from_hand", &card::render_hand(&ws), hand_json(&ws), &m);
                }
                // next multiset (non-decreasing)
                let mut i = size;
                while i > 0 && c[i - 1] == 52 {
                    i -= 1;
                }
                if i == 0 {
                    break;
                }
                let v = c[i - 1] + 1;
                for j in i - 1..size {
                    c[j] = v;
                }
            }
        }
        run.generator("all multisets of small hands over cards + blank", "exhaustive", Some(n), n, nt, &format!("sizes 2..={}", max_size));
    }
    // R: hands of every size
    {
        let st = engine::RStats::new();
        let cases = (if thorough { 16_000_000 } else { 2_000_000 }) / if run.is_twin() { 4 } else { 1 };
        // forced repeats: a slot may copy an earlier slot
        let make = || {
            (2usize..=7).prop_flat_map(|n| (proptest::collection::vec(slot_strategy(), n), proptest::collection::vec(proptest::option::weighted(0.15, 0usize..7), n))).prop_map(|(mut ws, copies)| {
                for i in 1..ws.len() {
                    if let Some(from) = copies[i] {
                        ws[i] = ws[from % i];
                    }
                }
                ws
            })
        };
        let res = pt::run_sharded(run.seed, 0xC15, cases, &make, &|ws: Vec<u32>| {
            let mut s = ws.clone();
            s.sort_unstable();
            let dup = s.windows(2).any(|p| p[0] == p[1]);
            let special = dup || ws.iter().any(|w| !card::is_card(*w));
            st.note(hash_words(&ws), special, Some(&format!("hands of size {} {}", ws.len(), if special { "with duplicate/blank/non-card" } else { "of distinct cards" })), || json!({"hand": card::render_hand(&ws), "set": format!("{:#x}", m_from_words(&ws))}));
            from_hand_clause(&ws).map_err(|e| {
                st.freeze();
                e
            })
        });
        st.flush(run, "proptest hands of 2..7 slots -> set", "proptest (8 shards)", None, "slots: cards, blank, one-bit corruptions, raw words; 15% of slots copy an earlier slot");
        if let Err(f) = res {
            let m = from_hand_clause(&f.value).err().unwrap_or_default();
            return run.violation("C15.from_hand", &card::render_hand(&f.value), hand_json(&f.value), &m);
        }
    }
    // R: texts
    {
        let st = engine::RStats::new();
        let cases = (if thorough { 4_000_000 } else { 400_000 }) / if run.is_twin() { 4 } else { 1 };
        let make = || super::c12::hand_text_strategy(0..=9usize);
        let res = pt::run_sharded(run.seed, 0xC15_7, cases, &make, &|s: String| {
            st.note(engine::hash_str(&s), true, None, || json!({"text": s}));
            text_clause(&s).map_err(|e| {
                st.freeze();
                e
            })
        });
        st.flush(run, "proptest token texts -> set", "proptest (8 shards)", None, "0..=9 tokens (card spellings and junk) joined by the common separators");
        if let Err(f) = res {
            let m = text_clause(&f.value).err().unwrap_or_default();
            return run.violation("C15.from_text", &f.value, json!({"text": f.value}), &m);
        }
    }
    // long texts: up to 160 tokens, mostly card spellings with many repeats (more tokens than a deck has cards)
    {
        let st = engine::RStats::new();
        let cases = (if thorough { 400_000 } else { 60_000 }) / if run.is_twin() { 4 } else { 1 };
        let make = long_text_strategy;
        let res = pt::run_sharded(run.seed, 0xC15_1076, cases, &make, &|s: String| {
            let n = text::tokens_with(super::c12::ws_def(), &s).len();
            st.note(engine::hash_str(&s), n > 52, Some(if n > 104 { "more than 104 tokens" } else if n > 52 { "53..=104 tokens" } else { "at most 52 tokens" }), || json!({"text_tokens": n, "text_start": s.chars().take(60).collect::<String>()}));
            text_clause(&s).map_err(|e| {
                st.freeze();
                e
            })
        });
        st.flush(run, "proptest long token texts -> set", "proptest (8 shards)", None, "30..160 tokens, repeats frequent; non-trivial = more tokens than a deck has cards");
        if let Err(f) = res {
            let m = text_clause(&f.value).err().unwrap_or_default();
            return run.violation("C15.from_text", &f.value, json!({"text": f.value}), &m);
        }
    }
    count_soak(run, "peeling small sets to exhaustion", (1 << 23) + (1 << 12), &|n| {
        let x: u64 = (1u64 << (n % 52)) | (1u64 << ((n / 52) % 52)) | (1u64 << ((n / 2704) % 52)) | if n % 16 == 3 { 1u64 << (52 + n % 12) } else { 0 };
        let mut s = x;
        let mut last = 64i64;
        for _ in 0..(x & ALL52).count_ones() {
            let b = s.peel();
            let pos = b.trailing_zeros() as i64;
            if b.count_ones() != 1 || pos >= 52 || pos >= last || x & b == 0 {
                return Err(format!("peeling {:#x} returned {:#x} after bit position {}", x, b, last));
            }
            last = pos;
        }
        if s.peel() != 0 || s != x & !ALL52 {
            return Err(format!("after peeling all members of {:#x} the set is {:#x} and another peel does not return blank", x, s));
        }
        Ok(())
    })?;
    // structured sets: peel to exhaustion
    {
        let mut sets: Vec<u64> = vec![0, ALL52, u64::MAX, !ALL52, 1 << 52, (1 << 52) | 1];
        for b in 0..64 {
            sets.push(1u64 << b);
        }
        for r in 0..13 {
            sets.push((0..4).fold(0u64, |m, s| m | card::bit_of(card::word(r, s))));
        }
        for s in 0..4 {
            sets.push((0..13).fold(0u64, |m, r| m | card::bit_of(card::word(r, s))));
        }
        let n = sets.len() as u64;
        for x in &sets {
            if let Err(m) = peel_all_clause(*x) {
                run.generator("structured sets, peeled to exhaustion", "structured", None, n, n, "");
                return run.violation("C15.peel_all", &format!("{:#x}", x), json!({"set": format!("{:#x}", x)}), &m);
            }
        }
        run.generator("structured sets, peeled to exhaustion", "structured", Some(n), n, n, "empty, full, all 64 single bits, rank groups, suit groups, overflow-only");
    }
    // R: sets peeled to exhaustion + histories
    {
        let st = engine::RStats::new();
        let cases = (if thorough { 8_000_000 } else { 800_000 }) / if run.is_twin() { 4 } else { 1 };
        let make = || (set_strategy(), proptest::collection::vec(op_strategy(), 0..80));
        let res = pt::run_sharded(run.seed, 0xC15_415, cases, &make, &|(start, ops): (u64, Vec<Op>)| {
            let mut h = mix(start);
            let mut seen_fold = false;
            let mut peel_after_fold = false;
            for o in &ops {
                h = mix(h ^ match o {
                    Op::FoldIn(x) => {
                        seen_fold = true;
                        *x ^ 1
                    }
                    Op::Peel => {
                        if seen_fold {
                            peel_after_fold = true;
                        }
                        2
                    }
                    Op::Has(x) => x.rotate_left(7) ^ 3,
                    Op::Count => 4,
                    Op::IsValid => 5,
                    Op::IsSingle => 6,
                });
            }
            st.note(h, peel_after_fold, Some(if peel_after_fold { "history with a peel after a fold_in" } else { "other history" }), || json!({"set": format!("{:#x}", start), "ops": ops_json(&ops)}));
            let r = history_clause(start, &ops).and_then(|_| peel_all_clause(start));
            r.map_err(|e| {
                st.freeze();
                e
            })
        });
        st.flush(run, "proptest histories of set operations + peel to exhaustion", "proptest (stateful, model-based; 8 shards)", None, "start set + up to 80 operations against a u64 model, compared after every step; non-trivial = a peel after a fold_in");
        if let Err(f) = res {
            let (start, ops) = f.value;
            let (clause, m) = match history_clause(start, &ops) {
                Err(m) => ("C15.history", m),
                Ok(()) => ("C15.peel_all", peel_all_clause(start).err().unwrap_or_default()),
            };
            return run.violation(clause, &format!("{:#x}+{}ops", start, ops.len()), json!({"set": format!("{:#x}", start), "ops": ops_json(&ops)}), &m);
        }
        run.sample(json!({"set": "0x8000000000001", "ops": ["peel", {"fold_in": "0x2"}, "peel", "peel", "peel"], "peeled": ["A♠", "3♣", "2♣", "blank"]}));
    }
    if thorough {
        super::fuzz::campaign(run, "c15_bitset", 3_000_000)?;
    }
    run.exhaustive = false;
    run.exhaustive_note = "open domain (2^64 sets, unbounded histories): structured + sampled; small hands are enumerated completely".into();
    Ok(())
}

pub fn check_case(clause: &str, case: &Value) -> Result<(), String> {
    if clause.ends_with(".after_disturbance") || clause.ends_with(".concurrent") || clause.ends_with(".concurrent_cold_start") || clause.ends_with(".after_repetition") {
        return super::common::replay_after_disturbance(case, check_case);
    }
    match clause {
        "C15.from_hand" => from_hand_clause(&engine::parse_words(&case["words"])?),
        "C15.from_text" => text_clause(case["text"].as_str().ok_or("text")?),
        "C15.peel_all" => peel_all_clause(super::c14::parse_set(&case["set"])?),
        "C15.history" => history_clause(super::c14::parse_set(&case["set"])?, &ops_from_json(&case["ops"])?),
        "C15.fuzz" | "C16.fuzz" => super::fuzz::check_fuzz_case(case),
        _ => Err(format!("unknown clause {}", clause)),
    }
}

pub fn run_c16(run: &mut Run) -> PResult {
    run.rule = "every value with one or two bits set (64 + 2,016, plus 0), and proptest 64-bit values of every population count, through Two::try_from(BinaryCard): expected result class by population count and overflow bits, the two cards in deck order, and conversion back to the same set. Non-trivial = two-bit values (1,326 valid, 690 touching an overflow bit) and values of other population counts near the boundary; distinct = distinct values".into();
    super::regress::replay_dir(run, "C16", check_case_c16)?;
    {
        let mut vals: Vec<u64> = vec![0, u64::MAX, ALL52];
        for a in 0..64u32 {
            vals.push(1u64 << a);
            for b in a + 1..64 {
                if (a * 64 + b) % 5 == 0 {
                    vals.push((1u64 << a) | (1u64 << b));
                }
            }
        }
        disturbance_pass(run, &vals, &|x| two_clause(*x), &|x| ("C16.try_from".into(), json!({"set": format!("{:#x}", x)}), format!("{:#x}", x)))?;
    }
    count_soak(run, "Two::try_from on one-, two- and three-bit sets", (1 << 25) + (1 << 12), &|n| {
        let x: u64 = match n % 4 {
            0 => (1u64 << (n % 52)) | (1u64 << ((n / 52) % 52)),
            1 => (1u64 << (n % 64)) | (1u64 << ((n / 64) % 64)),
            2 => 1u64 << (n % 64),
            _ => (1u64 << (n % 52)) | (1u64 << ((n / 5) % 52)) | (1u64 << ((n / 13) % 64)),
        };
        two_clause(x)
    })?;
    let mut n = 0u64;
    let mut nt = 0u64;
    let mut valid2 = 0u64;
    let mut over2 = 0u64;
    let mut vals: Vec<u64> = vec![0];
    for a in 0..64u32 {
        vals.push(1u64 << a);
        for b in a + 1..64 {
            vals.push((1u64 << a) | (1u64 << b));
        }
    }
    for x in &vals {
        n += 1;
        if x.count_ones() == 2 {
            nt += 1;
            if x >> 52 == 0 {
                valid2 += 1;
            } else {
                over2 += 1;
            }
        }
        if let Err(m) = two_clause(*x) {
            run.generator("0, all one- and two-bit values", "exhaustive", Some(vals.len() as u64), n, nt, "");
            return run.violation("C16.try_from", &format!("{:#x}", x), json!({"set": format!("{:#x}", x)}), &m);
        }
    }
    run.generator("0, all one- and two-bit values", "exhaustive", Some(vals.len() as u64), n, nt, "non-trivial = the 2,016 two-bit values");
    if !run.is_twin() {
        let hit = engine::ordered_pairs(&vals, &|a| { let _ = std::hint::black_box(Two::try_from(*a)); }, &|b| two_clause(*b));
        let np = (vals.len() * vals.len()) as u64;
        run.generator("all ordered pairs of one- and two-bit values converted back to back", "exhaustive (histories of length 2)", Some(np), np, np, "");
        if let Some((a, b, m)) = hit {
            return run.violation("C16.sequence", &format!("{:#x} ; {:#x}", vals[a], vals[b]), json!({"sets": [format!("{:#x}", vals[a]), format!("{:#x}", vals[b])]}), &format!("after converting {:#x}: {}", vals[a], m));
        }
        // a valid pair, then the same pair with extra bits (card or overflow): the second must be judged on its own
        let mut ns = 0u64;
        for s in vals.iter().filter(|x| x.count_ones() == 2 && **x >> 52 == 0) {
            let mut variants: Vec<u64> = (0..64).map(|b| s | (1u64 << b)).filter(|v| v != s).collect();
            variants.extend([s | !ALL52, s | (0xFFFu64 << 40), *s]);
            for v in variants {
                ns += 1;
                let _ = std::hint::black_box(Two::try_from(*s));
                if let Err(m) = two_clause(v) {
                    run.generator("a valid pair, then the same set with one more bit", "exhaustive (histories of length 2)", None, ns, ns, "");
                    return run.violation("C16.sequence", &format!("{:#x} ; {:#x}", s, v), json!({"sets": [format!("{:#x}", s), format!("{:#x}", v)]}), &format!("after converting {:#x}: {}", s, m));
                }
            }
        }
        run.generator("a valid pair, then the same set with one more bit", "exhaustive (histories of length 2)", Some(ns), ns, ns, "1,326 valid pairs x (each of the 62 other bits, all overflow bits, a block of card bits, the pair again)");
    }
    run.class("two card bits (must succeed)", valid2);
    run.class("two bits, at least one above the card bits (InvalidBinaryFormat)", over2);
    run.sample(json!({"set": "0x8000000000001", "result": "A♠ 2♣"}));
    run.sample(json!({"set": "0x10000000000001", "result": "InvalidBinaryFormat"}));
    let cases = (if run.tier == Tier::Thorough { 16_000_000 } else { 2_000_000 }) / if run.is_twin() { 4 } else { 1 };
    let st = engine::RStats::new();
    let make = || {
        prop_oneof![
            6 => (proptest::collection::vec(0u32..64, 0..=4)).prop_map(|v| v.iter().fold(0u64, |m, b| m | (1u64 << b))),
            3 => (0u32..52, 0u32..52).prop_map(|(a, b)| (1u64 << a) | (1u64 << b)),
            2 => (0u32..64, 52u32..64).prop_map(|(a, b)| (1u64 << a) | (1u64 << b)),
            2 => set_strategy(),
            1 => any::<u64>(),
        ]
    };
    let res = pt::run_sharded(run.seed, 0xC16, cases, &make, &|x: u64| {
        let pc = x.count_ones();
        st.note(x, true, Some(&format!("random values with population count {}{}", pc.min(3), if pc >= 3 { "+" } else { "" })), || json!({"set": format!("{:#x}", x)}));
        two_clause(x).map_err(|e| {
            st.freeze();
            e
        })
    });
    st.flush(run, "proptest 64-bit values", "proptest (8 shards)", None, "few-bit values (population counts 0..4), card pairs, pairs touching overflow bits, structured and raw sets");
    if let Err(f) = res {
        let m = two_clause(f.value).err().unwrap_or_default();
        return run.violation("C16.try_from", &format!("{:#x}", f.value), json!({"set": format!("{:#x}", f.value)}), &m);
    }
    if run.tier == Tier::Thorough {
        super::fuzz::campaign(run, "c15_bitset", 1_000_000)?;
    }
    run.exhaustive = false;
    run.exhaustive_note = "all one- and two-bit values enumerated; other population counts sampled (the result depends only on the count there)".into();
    Ok(())
}

pub fn check_case_c16(clause: &str, case: &Value) -> Result<(), String> {
    if clause.ends_with(".after_disturbance") || clause.ends_with(".concurrent") || clause.ends_with(".concurrent_cold_start") || clause.ends_with(".after_repetition") {
        return super::common::replay_after_disturbance(case, check_case_c16);
    }
    match clause {
        "C16.fuzz" | "C15.fuzz" => super::fuzz::check_fuzz_case(case),
        "C16.sequence" => {
            let _ = std::hint::black_box(Two::try_from(0x3u64 << 20));
            for (i, s) in case["sets"].as_array().ok_or("sets")?.iter().enumerate() {
                two_clause(super::c14::parse_set(s)?).map_err(|m| format!("call {}: {}", i + 1, m))?;
            }
            Ok(())
        }
        _ => two_clause(super::c14::parse_set(&case["set"])?),
    }
}

/// fuzz entry: bytes -> (start set, op list) -> history clause, peel-all clause, Two::try_from clause
pub fn check_bytes(data: &[u8]) -> Result<(), String> {
    let pos = Cell::new(0usize);
    let take = |n: usize| -> u64 {
        let i = pos.get();
        let mut v = 0u64;
        for k in 0..n {
            v |= (data.get(i + k).copied().unwrap_or(0) as u64) << (8 * k);
        }
        pos.set(i + n);
        v
    };
    let set_from = |tag: u64, raw: u64| -> u64 {
        match tag % 6 {
            0 => raw & ALL52,
            1 => raw,
            2 => 1u64 << (raw % 52),
            3 => (1u64 << (raw % 52)) | (1u64 << ((raw >> 8) % 52)),
            4 => (1u64 << (raw % 64)) | (1u64 << ((raw >> 8) % 64)),
            _ => raw & (raw >> 13) & ALL52,
        }
    };
    if data.is_empty() {
        return Ok(());
    }
    let t = take(1);
    let r = take(8);
    let start = set_from(t, r);
    let mut ops = Vec::new();
    while pos.get() < data.len() && ops.len() < 64 {
        let tag = take(1);
        ops.push(match tag % 8 {
            0 | 1 => {
                let t = take(1);
                let r = take(8);
                Op::FoldIn(set_from(t, r))
            }
            2 | 3 | 4 => Op::Peel,
            5 => {
                let t = take(1);
                let r = take(8);
                Op::Has(set_from(t, r))
            }
            6 => Op::Count,
            _ => {
                if tag & 8 == 0 {
                    Op::IsValid
                } else {
                    Op::IsSingle
                }
            }
        });
    }
    history_clause(start, &ops).map_err(|m| format!("C15.history: {} [start {:#x}, ops {}]", m, start, ops_json(&ops)))?;
    peel_all_clause(start).map_err(|m| format!("C15.peel_all: {}", m))?;
    two_clause(start).map_err(|m| format!("C16.try_from: {}", m))?;
    Ok(())
}
