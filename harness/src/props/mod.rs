//! One module per property. Each exposes `run` (generate + check) and `check_case` (re-check one
//! saved case without any generator: the replay path).

use crate::engine::{PResult, Run};
use serde_json::Value;

pub mod common;
pub mod c01;
pub mod multi;

pub struct Prop {
    pub id: &'static str,
    pub run: fn(&mut Run) -> PResult,
    pub check_case: fn(&str, &Value) -> Result<(), String>,
}

pub const PROPS: &[Prop] = &[
    Prop { id: "C01", run: c01::run, check_case: c01::check_case },
    Prop { id: "C02", run: multi::run_c02, check_case: multi::check_case_c02 },
    Prop { id: "C03", run: multi::run_c03, check_case: multi::check_case_c03 },
    Prop { id: "C09", run: multi::run_c09, check_case: multi::check_case_c09 },
];

pub fn find(id: &str) -> Option<&'static Prop> {
    PROPS.iter().find(|p| p.id == id)
}
