//! One module per property. Each exposes `run` (generate + check) and `check_case` (re-check one
//! saved case without any generator: the replay path).

use crate::engine::{PResult, Run};
use serde_json::Value;

pub mod common;
pub mod fuzz;
pub mod regress;
pub mod c01;
pub mod c04;
pub mod c05;
pub mod c06;
pub mod c07;
pub mod c08;
pub mod c10;
pub mod c11;
pub mod c12;
pub mod c13;
pub mod c14;
pub mod c15;
pub mod c17;
pub mod c18;
pub mod c19;
pub mod c20;
pub mod multi;

pub struct Prop {
    pub id: &'static str,
    pub run: fn(&mut Run) -> PResult,
    pub check_case: fn(&str, &Value) -> Result<(), String>,
    /// number of single-threaded cold-start children (checked profile); more where a child is cheap
    pub cold_singles: usize,
}

pub const PROPS: &[Prop] = &[
    Prop { id: "C01", run: c01::run, check_case: c01::check_case, cold_singles: 28 },
    Prop { id: "C02", run: multi::run_c02, check_case: multi::check_case_c02, cold_singles: 28 },
    Prop { id: "C03", run: multi::run_c03, check_case: multi::check_case_c03, cold_singles: 28 },
    Prop { id: "C04", run: c04::run, check_case: c04::check_case, cold_singles: 28 },
    Prop { id: "C05", run: c05::run, check_case: c05::check_case, cold_singles: 28 },
    Prop { id: "C06", run: c06::run, check_case: c06::check_case, cold_singles: 72 },
    Prop { id: "C07", run: c07::run, check_case: c07::check_case, cold_singles: 72 },
    Prop { id: "C08", run: c08::run, check_case: c08::check_case, cold_singles: 28 },
    Prop { id: "C09", run: multi::run_c09, check_case: multi::check_case_c09, cold_singles: 28 },
    Prop { id: "C10", run: c10::run, check_case: c10::check_case, cold_singles: 72 },
    Prop { id: "C11", run: c11::run, check_case: c11::check_case, cold_singles: 28 },
    Prop { id: "C12", run: c12::run, check_case: c12::check_case, cold_singles: 28 },
    Prop { id: "C13", run: c13::run, check_case: c13::check_case, cold_singles: 28 },
    Prop { id: "C14", run: c14::run, check_case: c14::check_case, cold_singles: 72 },
    Prop { id: "C15", run: c15::run, check_case: c15::check_case, cold_singles: 28 },
    Prop { id: "C16", run: c15::run_c16, check_case: c15::check_case_c16, cold_singles: 72 },
    Prop { id: "C17", run: c17::run, check_case: c17::check_case, cold_singles: 72 },
    Prop { id: "C18", run: c18::run, check_case: c18::check_case, cold_singles: 72 },
    Prop { id: "C19", run: c19::run, check_case: c19::check_case, cold_singles: 28 },
    Prop { id: "C20", run: c20::run, check_case: c20::check_case, cold_singles: 72 },
];

pub fn find(id: &str) -> Option<&'static Prop> {
    PROPS.iter().find(|p| p.id == id)
}
