//! C12 — text parsing is total; a token is a card iff it starts with rank + suit symbols.

use super::c10::{rank_num, suit_num};
use crate::engine::{self, guard, hash_str, hex, pt, PResult, Run, Tier};
use crate::model::{card, text};
use ckc_rs::cards::binary_card::{BinaryCard, BC64};
use ckc_rs::cards::five::Five;
use ckc_rs::cards::four::Four;
use ckc_rs::cards::seven::Seven;
use ckc_rs::cards::six::Six;
use ckc_rs::cards::three::Three;
use ckc_rs::cards::two::Two;
use ckc_rs::{CKCNumber, CardRank, CardSuit, HandError, PokerCard};
use proptest::prelude::*;
use serde_json::{json, Value};

/// The hand parsers demand `&'static str` although they return owned arrays; the generated
/// string's lifetime is extended for the duration of the call only.
fn as_static(s: &str) -> &'static str {
    unsafe { std::mem::transmute::<&str, &'static str>(s) }
}

fn char_clause(c: char) -> Result<(), String> {
    let r = guard(|| CardRank::from_char(c)).map_err(|m| format!("CardRank::from_char({:?}) panicked: {}", c, m))?;
    let s = guard(|| CardSuit::from_char(c)).map_err(|m| format!("CardSuit::from_char({:?}) panicked: {}", c, m))?;
    if rank_num(r) != text::rank_of(c) {
        return Err(format!("CardRank::from_char({:?} U+{:04X}) = {:?}, the rank symbols are A K Q J T 0 9-2 in either case", c, c as u32, r));
    }
    if suit_num(s) != text::suit_of(c) {
        return Err(format!("CardSuit::from_char({:?} U+{:04X}) = {:?}, the suit symbols are S H D C in either case and the filled / outline glyphs", c, c as u32, s));
    }
    Ok(())
}

fn token_clause(tok: &str) -> Result<(), String> {
    let want = text::card_of_token(tok);
    let got = guard(|| CKCNumber::from_index(tok)).map_err(|m| format!("CKCNumber::from_index({:?}) panicked: {}", tok, m))?;
    if got != want {
        return Err(format!("CKCNumber::from_index({:?}) = {} ({}), expected {} ({})", tok, card::render(got), hex(got), card::render(want), hex(want)));
    }
    let (r, s) = guard(|| ckc_rs::parse::get_rank_and_suit(tok)).map_err(|m| format!("parse::get_rank_and_suit({:?}) panicked: {}", tok, m))?;
    // the pair it returns must construct the same card
    let via = CKCNumber::create(r, s);
    if via != want {
        return Err(format!("parse::get_rank_and_suit({:?}) = ({:?}, {:?}), which constructs {}, expected {}", tok, r, s, card::render(via), card::render(want)));
    }
    let b = guard(|| BinaryCard::from_index(tok)).map_err(|m| format!("BinaryCard::from_index({:?}) panicked: {}", tok, m))?;
    let _ = b;
    Ok(())
}

fn parse_n(n: usize, s: &str) -> Result<Result<Vec<u32>, HandError>, String> {
    let st = as_static(s);
    match n {
        2 => guard(|| Two::try_from(st).map(|h| h.to_arr().to_vec())),
        3 => guard(|| Three::try_from(st).map(|h| h.to_arr().to_vec())),
        4 => guard(|| Four::try_from(st).map(|h| h.to_arr().to_vec())),
        5 => guard(|| Five::try_from(st).map(|h| h.to_arr().to_vec())),
        6 => guard(|| Six::try_from(st).map(|h| h.to_arr().to_vec())),
        7 => guard(|| Seven::try_from(st).map(|h| h.to_arr().to_vec())),
        _ => Err(format!("size {}", n)),
    }
}

/// Which standard definition of whitespace the crate's tokenisation follows, probed once on the
/// two-card parser with U+000B and U+0085 (whitespace in Unicode, not in ASCII). Whatever the
/// answer, that one definition is then required of every parser on every text.
pub fn ws_def() -> text::WsDef {
    static DEF: std::sync::OnceLock<text::WsDef> = std::sync::OnceLock::new();
    *DEF.get_or_init(|| {
        let vt = matches!(parse_n(2, "AS\u{b}KS"), Ok(Ok(_)));
        let nel = matches!(parse_n(2, "AS\u{85}KS"), Ok(Ok(_)));
        if vt && nel {
            text::WsDef::Unicode
        } else {
            text::WsDef::Ascii
        }
    })
}

/// every hand parser on one text; returns a label for the distribution
fn hand_clause(s: &str) -> Result<String, String> {
    let def = ws_def();
    let exotic_text = text::has_exotic_whitespace(s);
    // with the probed definition the model is defined on every text
    let exotic = false;
    let toks = text::tokens_with(def, s);
    let k = toks.len();
    let cards: Vec<u32> = toks.iter().map(|t| text::card_of_token(t)).collect();
    for n in 2..=7usize {
        let got = parse_n(n, s).map_err(|m| format!("parsing {:?} as a {}-slot hand panicked: {}", s, n, m))?;
        if exotic {
            continue;
        }
        if k < n {
            // the statement says "fails", not which error: any Err is accepted
            if got.is_ok() {
                return Err(format!("parsing {:?} ({} tokens under the {:?} definition of whitespace the crate follows elsewhere) as a {}-slot hand gave {:?}, expected an error: fewer tokens than slots", s, k, def, n, got.map(|v| card::render_hand(&v))));
            }
        } else if k == n {
            match &got {
                Ok(v) if *v == cards => {}
                _ => return Err(format!("parsing {:?} ({} tokens under the {:?} definition of whitespace the crate follows elsewhere) as a {}-slot hand gave {:?}, expected [{}]: one slot per token, in token order", s, k, def, n, got.map(|v| card::render_hand(&v)), card::render_hand(&cards))),
            }
        }
    }
    // the free five-card parser
    let f = guard(|| ckc_rs::parse::five_from_index(s)).map_err(|m| format!("parse::five_from_index({:?}) panicked: {}", s, m))?;
    if !exotic {
        if k < 5 && f.is_some() {
            return Err(format!("parse::five_from_index({:?}) ({} tokens) returned a hand", s, k));
        }
        if k == 5 && f.map(|a| a.to_vec()) != Some(cards.clone()) {
            return Err(format!("parse::five_from_index({:?}) = {:?}, expected [{}]", s, f.map(|a| card::render_hand(&a)), card::render_hand(&cards)));
        }
    }
    // bit-set parser: union of all card tokens
    let b = guard(|| BinaryCard::from_index(s)).map_err(|m| format!("BinaryCard::from_index({:?}) panicked: {}", s, m))?;
    if !exotic {
        let want = cards.iter().fold(0u64, |m, w| m | card::bit_of(*w));
        if b != want {
            return Err(format!("BinaryCard::from_index({:?}) = {:#x}, expected {:#x}", s, b, want));
        }
    }
    // the whole text as one token
    token_clause(s)?;
    let real = cards.iter().filter(|w| **w != 0).count();
    Ok(format!("{} tokens, {} of them cards{}", k.min(8), real.min(8), if exotic_text { ", contains whitespace other than space/tab/LF/CR/FF" } else { "" }))
}

// ------------------------------------------------------------------------------------------
// alphabets / strategies

pub fn sigma() -> Vec<char> {
    let mut v: Vec<char> = text::RANK_SYMBOLS.chars().chain(text::SUIT_SYMBOLS.chars()).collect();
    v.extend("ＡＫＱＪＴ１２ＳＨＤＣsАКСＳ1bBxXzZ?*-_.,;:!#/\\'\"()[]{}<>|+=~`^%$&@".chars());
    v.extend(['\0', ' ', '\t', '\n', '\r', '\x0B', '\x0C', '\u{85}', '\u{A0}', '\u{2003}', '\u{3000}', '\u{200B}', '\u{FEFF}']);
    v.extend(['é', 'ß', 'λ', 'Ж', '中', '♞', '★', '🂡', '🃏', '😀', '\u{301}', '\u{20DD}', '\u{10FFFF}', '\u{7F}', '\u{80}', '\u{7FF}', '\u{800}', '\u{FFFF}', '\u{10000}']);
    // mechanically derived confusables of every symbol: characters that a careless normalisation
    // (bit masks, case mapping, width folding, off-by-one ranges) would map onto a symbol
    let symbols: Vec<char> = text::RANK_SYMBOLS.chars().chain(text::SUIT_SYMBOLS.chars()).collect();
    for s in &symbols {
        let u = *s as u32;
        for c in [u ^ 0x20, u & !0x20, u | 0x20, u | 0x80, u & 0x7F, u + 0x100, u + 0xFEE0, u + 1, u.wrapping_sub(1), u ^ 0x1, u ^ 0x10, u ^ 0x40, u + 0x10000] {
            if let Some(ch) = char::from_u32(c) {
                v.push(ch);
            }
        }
    }
    // characters whose Unicode case mappings produce a symbol (e.g. U+212A KELVIN SIGN -> 'k')
    for cp in 0..=0x10FFFFu32 {
        if let Some(ch) = char::from_u32(cp) {
            if !symbols.contains(&ch) && (ch.to_lowercase().chain(ch.to_uppercase())).any(|m| symbols.contains(&m)) {
                v.push(ch);
            }
        }
    }
    v.sort_unstable();
    v.dedup();
    v
}

/// characters that are never whitespace (for junk tokens and tails inside hand texts)
fn solid_chars() -> Vec<char> {
    sigma().into_iter().filter(|c| (!c.is_whitespace() && !c.is_control()) || *c == '\0').collect()
}

fn token_strategy() -> impl Strategy<Value = String> {
    let ranks: Vec<char> = text::RANK_SYMBOLS.chars().collect();
    let suits: Vec<char> = text::SUIT_SYMBOLS.chars().collect();
    let solid = solid_chars();
    let solid2 = solid.clone();
    let solid3 = solid.clone();
    let (r1, s1) = (ranks.clone(), suits.clone());
    let (r2, s2) = (ranks.clone(), suits.clone());
    let r3 = ranks.clone();
    prop_oneof![
        12 => (0..ranks.len(), 0..suits.len()).prop_map(move |(r, s)| format!("{}{}", r1[r], s1[s])),
        3 => (0..ranks.len(), 0..suits.len(), proptest::collection::vec(0..solid.len(), 1..4)).prop_map(move |(r, s, t)| {
            let mut x = format!("{}{}", r2[r], s2[s]);
            for i in t { x.push(solid2[i]); }
            x
        }),
        2 => (0..r3.len()).prop_map(move |r| format!("{}", r3[r])),
        2 => (0..suits.len(), 0..ranks.len()).prop_map({ let (r, s) = (ranks.clone(), suits.clone()); move |(a, b)| format!("{}{}", s[a], r[b]) }),
        4 => proptest::collection::vec(0..solid3.len(), 1..5).prop_map({ let so = solid3.clone(); move |t| t.iter().map(|i| so[*i]).collect::<String>() }),
    ]
}

/// texts of k tokens (k in the given range) joined and padded with the common separators
pub fn hand_text_strategy(k: std::ops::RangeInclusive<usize>) -> impl Strategy<Value = String> {
    // mostly the five common separators; now and then one that is whitespace under the Unicode
    // definition only (U+000B, U+0085, U+00A0, U+2003) — the model follows the probed definition
    const SEPS: [char; 16] = [' ', ' ', ' ', ' ', '\t', '\t', '\n', '\n', '\r', '\x0C', ' ', '\t', '\x0B', '\u{85}', '\u{A0}', '\u{2003}'];
    let sep = proptest::collection::vec(0usize..16, 1..3).prop_map(|v| v.iter().map(|i| SEPS[*i]).collect::<String>());
    let pad = proptest::collection::vec(0usize..16, 0..2).prop_map(|v| v.iter().map(|i| SEPS[*i]).collect::<String>());
    (proptest::collection::vec((token_strategy(), sep), k), pad.clone(), pad).prop_map(|(toks, lead, trail)| {
        let mut s = lead;
        let n = toks.len();
        for (i, (t, sp)) in toks.into_iter().enumerate() {
            s.push_str(&t);
            if i + 1 < n {
                s.push_str(&sp);
            }
        }
        s.push_str(&trail);
        s
    })
}

pub fn run(run: &mut Run) -> PResult {
    run.rule = "every Unicode scalar value through the rank and suit symbol tables; tokens c1 c2 tail for every pair (c1, c2) over an alphabet of all symbols, look-alikes, separators, NUL and 1-4 byte characters x 8 tails, plus empty and one-character tokens(the alphabet includes mechanically derived confusables of every symbol: bit-mask, case-mapping, width and off-by-one neighbours); every two-character token with any Unicode character before a suit symbol or after a rank symbol; 52 cards x 4 renderings for the round trip; proptest hand texts of 0..=9 tokens (occasionally separated by U+000B, U+0085, U+00A0, U+2003) and arbitrary strings through from_index, get_rank_and_suit, five_from_index, TryFrom<&str> for Two..Seven and BinaryCard::from_index; thorough adds a libFuzzer campaign. Oracle: symbol tables + first-two-characters rule + tokenisation under the probed whitespace definition. Non-trivial = tokens / texts that are not one of the canonical spellings of a card (tails, junk, multi-byte, too few or exactly N tokens with junk); distinct by 64-bit hash of the text".into();
    run.assume("texts with more tokens than slots: only totality is asserted (the statement speaks of fewer and of exactly that many)");
    run.assume(&format!("'whitespace' is one of the two standard definitions (Unicode White_Space or ASCII whitespace); which one the crate follows is probed on the two-card parser (this run: {:?}) and then required uniformly of every parser on every text, so either implementation passes but a mixture does not", ws_def()));
    super::regress::replay_dir(run, "C12", check_case)?;
    {
        let mut toks: Vec<String> = Vec::new();
        for r in text::RANK_SYMBOLS.chars() {
            for s in text::SUIT_SYMBOLS.chars() {
                toks.push(format!("{}{}", r, s));
            }
        }
        for t in ["", "A", "♠", "♠A", "XS", "AX", "1S", "Ａs", "\u{212A}S", "A\u{2640}", "\u{12}S", "0♡xyz", "🂡", " AS"] {
            toks.push(t.to_string());
        }
        super::common::disturbance_pass(run, &toks, &|t| token_clause(t), &|t| ("C12.token".into(), json!({"token": t}), format!("{:?}", t)))?;
        let texts: Vec<String> = ["AS KS", "AS KS QS", "2c 3c 4c 5c", "A♠ K♠ Q♠ J♠ T♠", "as\tkd\nqh  jc\r0s 9d", "AS KS QS JS TS 9S 8S", "AS KS QS JS TS 9S", "zz AS", "AS\u{b}KS", "AS\u{85}KS QS", " ", "2c 2c 2c 2c 2c 2c 2c 2c"].iter().map(|s| s.to_string()).collect();
        super::common::disturbance_pass(run, &texts, &|t| hand_clause(t).map(|_| ()), &|t| ("C12.hand".into(), json!({"text": t}), format!("{:?}", t)))?;
    }
    let thorough = run.tier == Tier::Thorough;
    // E1
    let mut n = 0u64;
    for cp in 0..=0x10FFFFu32 {
        if let Some(c) = char::from_u32(cp) {
            n += 1;
            if let Err(m) = char_clause(c) {
                run.generator("every Unicode scalar value through both symbol tables", "exhaustive", Some(1_112_064), n, n, "");
                return run.violation("C12.symbol", &format!("U+{:04X}", cp), json!({"char": c.to_string(), "codepoint": cp}), &m);
            }
        }
    }
    run.generator("every Unicode scalar value through both symbol tables", "exhaustive", Some(1_112_064), n, n - 35, "non-trivial = the 1,112,029 characters that are not one of the 19 rank + 16 suit symbols (must map to blank)");
    // E2
    {
        let sg = sigma();
        let tails = ["", "S", "♠", "AS", " ", "\u{301}", "xyz 2c", "🂡🂡"];
        let mut n = 0u64;
        let mut nt = 0u64;
        let canonical = |t: &str| t.chars().count() == 2 && text::card_of_token(t) != 0;
        let mut toks: Vec<String> = vec![String::new()];
        for c in &sg {
            toks.push(c.to_string());
        }
        for a in &sg {
            for b in &sg {
                for t in tails {
                    toks.push(format!("{}{}{}", a, b, t));
                }
            }
        }
        for t in &toks {
            n += 1;
            if !canonical(t) {
                nt += 1;
            }
            if let Err(m) = token_clause(t) {
                run.generator("tokens c1 c2 tail over the character alphabet", "exhaustive", Some(toks.len() as u64), n, nt, "");
                return run.violation("C12.token", t, json!({"token": t}), &m);
            }
        }
        run.generator("tokens c1 c2 tail over the character alphabet", "exhaustive", Some(toks.len() as u64), n, nt, &format!("{} characters squared x {} tails, plus empty and one-character tokens", sg.len(), tails.len()));
        run.sample(json!({"token": "0♡xyz 2c", "card": card::render(text::card_of_token("0♡xyz 2c"))}));
        run.sample(json!({"token": "Ａs", "card": "blank (full-width A is not a rank symbol)"}));
    }
    // E2b: one-sided scans over all of Unicode: every character as the first character before each
    // of the 16 suit symbols, and every character as the second character after each of the 19 rank symbols
    {
        use rayon::prelude::*;
        let ranks: Vec<char> = text::RANK_SYMBOLS.chars().collect();
        let suits: Vec<char> = text::SUIT_SYMBOLS.chars().collect();
        let bad: Option<String> = (0..=0x10FFFFu32).into_par_iter().filter_map(char::from_u32).find_map_first(|c| {
            for s in &suits {
                let t: String = [c, *s].iter().collect();
                if token_clause(&t).is_err() {
                    return Some(t);
                }
            }
            for r in &ranks {
                let t: String = [*r, c].iter().collect();
                if token_clause(&t).is_err() {
                    return Some(t);
                }
            }
            None
        });
        let n = 1_112_064u64 * 35;
        run.generator("two-character tokens: any character + suit symbol, rank symbol + any character", "exhaustive", Some(n), n, n - 2 * 19 * 16, "closes the first-two-characters rule for all tokens in which at least one of the two leading characters is a symbol");
        if let Some(t) = bad {
            let m = token_clause(&t).err().unwrap_or_else(|| format!("during the parallel sweep (16 threads parsing different tokens at the same time) the token {:?} was parsed wrongly, but parsing it again on one thread gives the right card: the result depends on what other threads are parsing (shared state without synchronisation) or on earlier calls", t));
            return run.violation("C12.token", &t, json!({"token": t}), &m);
        }
    }
    // call-order independence: ordered pairs of tokens parsed back to back
    if !run.is_twin() {
        let mut toks: Vec<String> = Vec::new();
        for r in text::RANK_SYMBOLS.chars() {
            for s in text::SUIT_SYMBOLS.chars() {
                toks.push(format!("{}{}", r, s));
            }
        }
        for t in ["", "A", "♠", "♠A", "XS", "AX", "1S", "Ａs", "\u{212A}S", "A\u{2640}", "\u{12}S", "as ks", "0♡xyz", "🂡", "A\u{301}S", " AS", "\tKd"] {
            toks.push(t.to_string());
        }
        let hit = engine::ordered_pairs(&toks, &|a| { std::hint::black_box(CKCNumber::from_index(a)); }, &|b| token_clause(b));
        let np = (toks.len() * toks.len()) as u64;
        run.generator("ordered pairs of tokens parsed back to back", "exhaustive (histories of length 2)", Some(np), np, np, "all 304 canonical spellings + junk tokens");
        if let Some((a, b, m)) = hit {
            return run.violation("C12.sequence", &format!("{:?} ; {:?}", toks[a], toks[b]), json!({"tokens": [toks[a], toks[b]]}), &format!("after parsing {:?}: {}", toks[a], m));
        }
    }
    // E3: render -> parse
    {
        let mut n = 0u64;
        for w in card::DECK {
            let (rc, sc, sl) = (w.get_rank_char(), w.get_suit_char(), w.get_suit_letter());
            for t in [format!("{}{}", rc, sc), format!("{}{}", rc, sl), format!("{}{}", rc.to_ascii_lowercase(), sl.to_ascii_lowercase()), format!("{}{}", rc.to_ascii_lowercase(), sc)] {
                n += 1;
                let got = guard(|| CKCNumber::from_index(&t)).unwrap_or(u32::MAX);
                if got != w {
                    run.generator("render -> parse round trip", "exhaustive", Some(208), n, n, "");
                    return run.violation("C12.roundtrip", &t, json!({"word": hex(w), "text": t}), &format!("{} renders as {:?} which parses back to {}", card::render(w), t, card::render(got)));
                }
            }
        }
        run.generator("render -> parse round trip", "exhaustive", Some(208), n, n, "52 cards x {glyph, letter} x {as is, lowercase}");
    }
    // R: hand texts
    let label_nt = |s: &str| -> bool {
        let toks = text::tokens(s);
        !(toks.iter().all(|t| t.chars().count() == 2 && text::card_of_token(t) != 0) && !toks.is_empty())
    };
    {
        let st = engine::RStats::new();
        let cases = (if thorough { 16_000_000 } else { 1_600_000 }) / if run.is_twin() { 4 } else { 1 };
        let make = || hand_text_strategy(0..=9);
        let res = pt::run_sharded(run.seed, 0xC12, cases, &make, &|s: String| match hand_clause(&s) {
            Ok(label) => {
                st.note(hash_str(&s), label_nt(&s), Some(&label), || json!({"text": s}));
                Ok(())
            }
            Err(m) => {
                st.freeze();
                Err(m)
            }
        });
        st.flush(run, "proptest hand texts (0..=9 tokens)", "proptest (8 shards)", None, "tokens: 12/23 canonical spellings, card + tail, lone rank, suit-then-rank, junk; joined by 1-2 common separators, optional padding");
        if let Err(f) = res {
            let m = hand_clause(&f.value).err().unwrap_or_default();
            return run.violation("C12.hand", &f.value, json!({"text": f.value}), &m);
        }
    }
    // R: long texts (more tokens than any hand has slots, more than a deck has cards): totality of the
    // hand parsers, and the bit-set parser must still fold every token in
    {
        let st = engine::RStats::new();
        let cases = (if thorough { 200_000 } else { 30_000 }) / if run.is_twin() { 4 } else { 1 };
        let res = pt::run_sharded(run.seed, 0xC12_1076, cases, &super::c15::long_text_strategy, &|s: String| match hand_clause(&s) {
            Ok(_) => {
                st.note(hash_str(&s), true, None, || json!({"text_start": s.chars().take(60).collect::<String>()}));
                Ok(())
            }
            Err(m) => {
                st.freeze();
                Err(m)
            }
        });
        st.flush(run, "proptest long texts (30..160 tokens)", "proptest (8 shards)", None, "card spellings with many repeats and some junk");
        if let Err(f) = res {
            let m = hand_clause(&f.value).err().unwrap_or_default();
            return run.violation("C12.hand", &f.value, json!({"text": f.value}), &m);
        }
    }
    // R: arbitrary strings (totality, and the oracle wherever it applies)
    {
        let st = engine::RStats::new();
        let cases = (if thorough { 8_000_000 } else { 800_000 }) / if run.is_twin() { 4 } else { 1 };
        let make = || {
            let sg = sigma();
            let sg2 = sg.clone();
            prop_oneof![
                2 => ".*",
                2 => "[AKQJT0-9akqjt]{0,3}[SHDCshdc♠♥♦♣♤♡♢♧]{0,3}[ \\t\\n]{0,2}.{0,6}",
                3 => proptest::collection::vec(0..sg.len(), 0..24).prop_map(move |v| v.iter().map(|i| sg2[*i]).collect::<String>()),
            ]
        };
        let res = pt::run_sharded(run.seed, 0xC12_A, cases, &make, &|s: String| match hand_clause(&s) {
            Ok(label) => {
                st.note(hash_str(&s), label_nt(&s), Some(&label), || json!({"text": s}));
                Ok(())
            }
            Err(m) => {
                st.freeze();
                Err(m)
            }
        });
        st.flush(run, "proptest arbitrary strings", "proptest (8 shards)", None, "any string, a symbol-rich regex, strings over the character alphabet (separators and exotic whitespace included)");
        if let Err(f) = res {
            let m = hand_clause(&f.value).err().unwrap_or_default();
            return run.violation("C12.hand", &f.value, json!({"text": f.value}), &m);
        }
    }
    if thorough {
        super::fuzz::campaign(run, "c12_text", 3_000_000)?;
    }
    run.exhaustive = false;
    run.exhaustive_note = "the symbol tables (all Unicode scalar values) and the token alphabet are enumerated completely; whole texts are an open domain and are sampled".into();
    Ok(())
}

pub fn check_case(clause: &str, case: &Value) -> Result<(), String> {
    if clause.ends_with(".after_disturbance") || clause.ends_with(".concurrent") || clause.ends_with(".concurrent_cold_start") || clause.ends_with(".after_repetition") {
        return super::common::replay_after_disturbance(case, check_case);
    }
    match clause {
        "C12.symbol" => {
            let c = case["codepoint"].as_u64().and_then(|x| char::from_u32(x as u32)).ok_or("codepoint")?;
            char_clause(c)
        }
        "C12.token" => token_clause(case["token"].as_str().ok_or("token")?),
        "C12.sequence" => {
            std::hint::black_box(CKCNumber::from_index("7d"));
            for (i, t) in case["tokens"].as_array().ok_or("tokens")?.iter().enumerate() {
                token_clause(t.as_str().unwrap_or("")).map_err(|m| format!("call {}: {}", i + 1, m))?;
            }
            Ok(())
        }
        "C12.roundtrip" => {
            let w = engine::parse_word(&case["word"])?;
            let t = case["text"].as_str().ok_or("text")?;
            let got = guard(|| CKCNumber::from_index(t))?;
            if got != w {
                return Err(format!("{:?} parses to {}, not {}", t, card::render(got), card::render(w)));
            }
            Ok(())
        }
        "C12.hand" => hand_clause(case["text"].as_str().ok_or("text")?).map(|_| ()),
        "C12.fuzz" => super::fuzz::check_fuzz_case(case),
        _ => Err(format!("unknown clause {}", clause)),
    }
}

/// fuzz entry: bytes -> lossy UTF-8 -> every parser
pub fn check_bytes(data: &[u8]) -> Result<(), String> {
    let s = String::from_utf8_lossy(data).to_string();
    hand_clause(&s).map(|_| ()).map_err(|m| format!("C12.hand: {}", m))
}

