//! C14 — bit-set card form and word form are mutually inverse over the 52 cards.

use crate::engine::enumerate::{par_range, Acc};
use crate::engine::{self, guard, hex, pt, PResult, Run, Tier};
use crate::model::card;
use ckc_rs::cards::binary_card::{BinaryCard, BC64};
use ckc_rs::{CKCNumber, PokerCard};
use proptest::prelude::*;
use serde_json::{json, Value};

struct A {
    n: u64,
    fail: Option<u32>,
}
impl Acc for A {
    fn merge(&mut self, o: Self) {
        self.n += o.n;
        if self.fail.is_none() {
            self.fail = o.fail;
        }
    }
    fn failed(&self) -> bool {
        self.fail.is_some()
    }
}

fn word_clause(w: u32) -> Result<(), String> {
    let got = guard(|| BinaryCard::from_ckc(w)).map_err(|m| format!("from_ckc({}) panicked: {}", hex(w), m))?;
    let want = card::bit_of(w);
    if got != want {
        return Err(format!("BinaryCard::from_ckc({} = {}) = {:#x}, expected {:#x} ({})", hex(w), card::render(w), got, want, if want == 0 { "not a card: empty set".to_string() } else { format!("bit {}", want.trailing_zeros()) }));
    }
    if want != 0 {
        let back = guard(|| CKCNumber::from_binary_card(got)).map_err(|m| format!("from_binary_card panicked: {}", m))?;
        if back != w {
            return Err(format!("{} -> bit {:#x} -> {} does not round-trip", card::render(w), got, card::render(back)));
        }
    }
    Ok(())
}

fn set_clause(x: u64) -> Result<(), String> {
    let got = guard(|| CKCNumber::from_binary_card(x)).map_err(|m| format!("from_binary_card({:#x}) panicked: {}", x, m))?;
    let want = if x.count_ones() == 1 && x.trailing_zeros() < 52 { card::DECK[51 - x.trailing_zeros() as usize] } else { 0 };
    if got != want {
        return Err(format!("CKCNumber::from_binary_card({:#x}) = {}, expected {}", x, card::render(got), card::render(want)));
    }
    if want != 0 {
        let back = guard(|| BinaryCard::from_ckc(got)).map_err(|m| format!("from_ckc panicked: {}", m))?;
        if back != x {
            return Err(format!("bit {:#x} -> {} -> {:#x} does not round-trip", x, card::render(got), back));
        }
    }
    Ok(())
}

pub fn named_bits() -> Vec<(&'static str, u64, usize)> {
    macro_rules! k {
        ($($name:ident),* $(,)?) => {{ let mut v = Vec::new(); let mut i = 0usize; $( v.push((stringify!($name), BinaryCard::$name, i)); i += 1; )* let _ = i; v }};
    }
    k![
        ACE_SPADES, KING_SPADES, QUEEN_SPADES, JACK_SPADES, TEN_SPADES, NINE_SPADES, EIGHT_SPADES, SEVEN_SPADES, SIX_SPADES, FIVE_SPADES, FOUR_SPADES, TREY_SPADES, DEUCE_SPADES,
        ACE_HEARTS, KING_HEARTS, QUEEN_HEARTS, JACK_HEARTS, TEN_HEARTS, NINE_HEARTS, EIGHT_HEARTS, SEVEN_HEARTS, SIX_HEARTS, FIVE_HEARTS, FOUR_HEARTS, TREY_HEARTS, DEUCE_HEARTS,
        ACE_DIAMONDS, KING_DIAMONDS, QUEEN_DIAMONDS, JACK_DIAMONDS, TEN_DIAMONDS, NINE_DIAMONDS, EIGHT_DIAMONDS, SEVEN_DIAMONDS, SIX_DIAMONDS, FIVE_DIAMONDS, FOUR_DIAMONDS, TREY_DIAMONDS, DEUCE_DIAMONDS,
        ACE_CLUBS, KING_CLUBS, QUEEN_CLUBS, JACK_CLUBS, TEN_CLUBS, NINE_CLUBS, EIGHT_CLUBS, SEVEN_CLUBS, SIX_CLUBS, FIVE_CLUBS, FOUR_CLUBS, TREY_CLUBS, DEUCE_CLUBS,
    ]
}

fn constant_clauses() -> Result<(), (String, String)> {
    for (name, bit, dp) in named_bits() {
        if bit != 1u64 << (51 - dp) {
            return Err((name.to_string(), format!("BinaryCard::{} = {:#x}, expected bit {} (deck position {})", name, bit, 51 - dp, dp)));
        }
    }
    let deck = <BinaryCard as BC64>::DECK;
    for i in 0..52 {
        if deck[i] != 1u64 << (51 - i) {
            return Err((format!("DECK[{}]", i), format!("BinaryCard::DECK[{}] = {:#x}, expected bit {}", i, deck[i], 51 - i)));
        }
    }
    if <BinaryCard as BC64>::ALL != (1u64 << 52) - 1 {
        return Err(("ALL".into(), "BinaryCard::ALL is not the 52 low bits".into()));
    }
    if <BinaryCard as BC64>::OVERFLOW != !((1u64 << 52) - 1) {
        return Err(("OVERFLOW".into(), "BinaryCard::OVERFLOW is not the 12 high bits".into()));
    }
    if <BinaryCard as BC64>::BLANK != 0 {
        return Err(("BLANK".into(), "BinaryCard::BLANK is not 0".into()));
    }
    let groups: [(&str, u64); 13] = [
        ("ACES", <BinaryCard as BC64>::ACES),
        ("KINGS", <BinaryCard as BC64>::KINGS),
        ("QUEENS", <BinaryCard as BC64>::QUEENS),
        ("JACKS", <BinaryCard as BC64>::JACKS),
        ("TENS", <BinaryCard as BC64>::TENS),
        ("NINES", <BinaryCard as BC64>::NINES),
        ("EIGHTS", <BinaryCard as BC64>::EIGHTS),
        ("SEVENS", <BinaryCard as BC64>::SEVENS),
        ("SIXES", <BinaryCard as BC64>::SIXES),
        ("FIVES", <BinaryCard as BC64>::FIVES),
        ("FOURS", <BinaryCard as BC64>::FOURS),
        ("TREYS", <BinaryCard as BC64>::TREYS),
        ("DEUCES", <BinaryCard as BC64>::DEUCES),
    ];
    for (i, (name, g)) in groups.iter().enumerate() {
        let r = 12 - i as u32;
        let want = (0..4).fold(0u64, |m, s| m | card::bit_of(card::word(r, s)));
        if *g != want {
            return Err((name.to_string(), format!("BinaryCard::{} = {:#x}, expected the four bits of that rank {:#x}", name, g, want)));
        }
    }
    Ok(())
}

pub fn run(run: &mut Run) -> PResult {
    run.rule = "all 2^32 words through BinaryCard::from_ckc (with the round trip back for the 52 cards); 0, all 64 single bits, all 2,016 two-bit values and seeded 64-bit values of every population count through CKCNumber::from_binary_card (with the round trip back); the 52 named bit constants, DECK, ALL, OVERFLOW and the 13 rank groups. Non-trivial = non-card words / sets that are not a single card bit (the negative space) plus the 52 cards; distinct = distinct words / values".into();
    super::regress::replay_dir(run, "C14", check_case)?;
    {
        let mut words: Vec<u32> = card::DECK.to_vec();
        words.push(0);
        for c in card::DECK {
            words.extend([c | (1 << 29), c | (7 << 29), c ^ 1, c ^ 0x1000, c & !0xF000]);
        }
        super::common::disturbance_pass(run, &words, &|w| word_clause(*w), &|w| ("C14.word_to_bit".into(), json!({"word": hex(*w)}), hex(*w)))?;
        let mut sets: Vec<u64> = vec![0, u64::MAX, (1 << 52) - 1];
        for a in 0..64 {
            sets.push(1u64 << a);
            sets.push((1u64 << a) | (1u64 << ((a * 7 + 3) % 64)));
        }
        super::common::disturbance_pass(run, &sets, &|x| set_clause(*x), &|x| ("C14.bit_to_word".into(), json!({"set": format!("{:#x}", x)}), format!("{:#x}", x)))?;
    }
    super::common::count_soak(run, "word <-> set conversions", (1 << 26) + (1 << 12), &soak_step)?;
    if let Err((sig, m)) = constant_clauses() {
        return run.violation("C14.constants", &sig, json!({"constant": sig}), &m);
    }
    run.generator("bit constants (52 named, DECK, ALL, OVERFLOW, 13 rank groups)", "exhaustive", Some(52 + 52 + 3 + 13), 120, 120, "");
    let acc = par_range::<A>(1 << 32, 1 << 22, || A { n: 0, fail: None }, |acc, lo, hi| {
        for w in lo..hi {
            let w = w as u32;
            let got = BinaryCard::from_ckc(w);
            let want = card::bit_of(w);
            if got != want || (want != 0 && CKCNumber::from_binary_card(got) != w) {
                acc.fail = Some(w);
                return false;
            }
        }
        acc.n += hi - lo;
        true
    });
    run.generator("every 32-bit word through from_ckc", "exhaustive", Some(1 << 32), acc.n, acc.n, "cases = words: 52 cards (round trip) + every other word (must give the empty set)");
    if let Some(w) = acc.fail {
        let m = word_clause(w).err().unwrap_or_else(|| panic!("fast and slow paths disagree on {}", hex(w)));
        return run.violation("C14.word_to_bit", &hex(w), json!({"word": hex(w)}), &m);
    }
    // sets
    let mut structured: Vec<u64> = vec![0, u64::MAX, (1 << 52) - 1, 1 << 52, !((1u64 << 52) - 1)];
    for a in 0..64 {
        structured.push(1u64 << a);
        for b in a + 1..64 {
            structured.push((1u64 << a) | (1u64 << b));
        }
    }
    let n = structured.len() as u64;
    for x in &structured {
        if let Err(m) = set_clause(*x) {
            run.generator("0, all single bits, all two-bit values", "exhaustive", Some(n), n, n, "");
            return run.violation("C14.bit_to_word", &format!("{:#x}", x), json!({"set": format!("{:#x}", x)}), &m);
        }
    }
    run.generator("0, all single bits, all two-bit values", "exhaustive", Some(n), n, n, "64 single bits (52 cards, 12 overflow), 2,016 pairs, empty, full");
    if !run.is_twin() {
        // call-order independence, set -> word: every ordered pair of {0, single bits, a spread of two-bit
        // values}, and every triple (card bit, x, x)
        let mut items: Vec<u64> = vec![0, u64::MAX];
        for a in 0..64 {
            items.push(1u64 << a);
        }
        for (i, x) in structured.iter().enumerate() {
            if x.count_ones() == 2 && i % 9 == 0 {
                items.push(*x);
            }
        }
        let hit = engine::ordered_pairs(&items, &|a| { std::hint::black_box(CKCNumber::from_binary_card(*a)); }, &|b| set_clause(*b));
        let np = (items.len() * items.len()) as u64;
        run.generator("ordered pairs of sets converted back to back", "exhaustive (histories of length 2)", Some(np), np, np, "0, all ones, 64 single bits, every ninth two-bit value");
        if let Some((a, b, m)) = hit {
            return run.violation("C14.sequence", &format!("{:#x} ; {:#x}", items[a], items[b]), json!({"sets": [format!("{:#x}", items[a]), format!("{:#x}", items[b])]}), &format!("after converting {:#x}: {}", items[a], m));
        }
        let mut nt = 0u64;
        for c in 0..52u32 {
            for x in structured.iter().filter(|x| x.count_ones() != 1 || x.trailing_zeros() >= 52) {
                nt += 1;
                std::hint::black_box(CKCNumber::from_binary_card(1u64 << c));
                let r = set_clause(*x).and_then(|_| set_clause(*x));
                if let Err(m) = r {
                    run.generator("triples: a card bit, then a non-card set twice", "exhaustive (histories of length 3)", None, nt, nt, "");
                    return run.violation("C14.sequence", &format!("{:#x} ; {:#x} ; {:#x}", 1u64 << c, x, x), json!({"sets": [format!("{:#x}", 1u64 << c), format!("{:#x}", x), format!("{:#x}", x)]}), &format!("after converting {:#x} and then {:#x}: {}", 1u64 << c, x, m));
                }
            }
        }
        run.generator("triples: a card bit, then a non-card set twice", "exhaustive (histories of length 3)", Some(nt), nt, nt, "52 card bits x (0, overflow bits, all two-bit values, ...)");
        // word -> set: ordered pairs over cards and near-miss words
        let mut words: Vec<u32> = card::DECK.to_vec();
        words.push(0);
        for c in card::DECK {
            for m in [1u32, 2, 4, 7] {
                words.push(c | (m << 29));
            }
            words.push(c ^ 1);
            words.push(c ^ 0x1000);
        }
        let hit = engine::ordered_pairs(&words, &|a| { std::hint::black_box(BinaryCard::from_ckc(*a)); }, &|b| word_clause(*b));
        let np = (words.len() * words.len()) as u64;
        run.generator("ordered pairs of words converted back to back", "exhaustive (histories of length 2)", Some(np), np, np, "52 cards, blank, flagged cards, one-bit corruptions");
        if let Some((a, b, m)) = hit {
            return run.violation("C14.sequence_words", &format!("{} ; {}", hex(words[a]), hex(words[b])), json!({"words": [hex(words[a]), hex(words[b])]}), &format!("after converting {}: {}", hex(words[a]), m));
        }
    }
    run.sample(json!({"set": "0x8000000000000", "card": card::render(CKCNumber::from_binary_card(1 << 51))}));
    run.sample(json!({"set": "0x3", "card": card::render(CKCNumber::from_binary_card(3)), "note": "two bits: blank"}));
    let cases = (if run.tier == Tier::Thorough { 2_000_000 } else { 200_000 }) / if run.is_twin() { 4 } else { 1 };
    let cnt = std::cell::Cell::new(0u64);
    let distinct = std::cell::RefCell::new(engine::Distinct::new());
    // a set of bit positions, optionally complemented: reaches every population count and shrinks
    // towards few low bits
    let strat = (proptest::collection::vec(0u32..64, 0..=40), any::<bool>()).prop_map(|(v, neg)| {
        let x = v.iter().fold(0u64, |m, b| m | (1u64 << b));
        if neg {
            !x
        } else {
            x
        }
    });
    let res = pt::run(run.seed, 0xC14, cases, &strat, |x| {
        if cnt.get() < cases as u64 {
            cnt.set(cnt.get() + 1);
            distinct.borrow_mut().insert(x);
        }
        set_clause(x)
    });
    run.generator("seeded 64-bit values of every population count", "proptest", None, cnt.get(), distinct.borrow().len(), "OR of up to 40 generated bit positions, optionally complemented (all population counts reachable)");
    if let Err(f) = res {
        let m = set_clause(f.value).err().unwrap_or_default();
        return run.violation("C14.bit_to_word", &format!("{:#x}", f.value), json!({"set": format!("{:#x}", f.value)}), &m);
    }
    run.exhaustive = true;
    run.exhaustive_note = "word side (2^32) and the constants completely; the 2^64 set side by all one- and two-bit values plus a seeded sample".into();
    Ok(())
}

pub fn parse_set(v: &Value) -> Result<u64, String> {
    if let Some(n) = v.as_u64() {
        return Ok(n);
    }
    let s = v.as_str().ok_or("set must be a hex string")?;
    u64::from_str_radix(s.trim_start_matches("0x"), 16).map_err(|e| e.to_string())
}

pub fn check_case(clause: &str, case: &Value) -> Result<(), String> {
    if clause.ends_with(".soak") {
        return super::common::replay_soak(case, &soak_step);
    }
    if clause.ends_with(".after_disturbance") || clause.ends_with(".concurrent") || clause.ends_with(".concurrent_cold_start") || clause.ends_with(".after_repetition") {
        return super::common::replay_after_disturbance(case, check_case);
    }
    match clause {
        "C14.constants" => constant_clauses().map_err(|(_, m)| m),
        "C14.word_to_bit" => word_clause(engine::parse_word(&case["word"])?),
        "C14.bit_to_word" => set_clause(parse_set(&case["set"])?),
        "C14.sequence" => {
            std::hint::black_box(CKCNumber::from_binary_card(1 << 20));
            for (i, s) in case["sets"].as_array().ok_or("sets")?.iter().enumerate() {
                set_clause(parse_set(s)?).map_err(|m| format!("call {}: {}", i + 1, m))?;
            }
            Ok(())
        }
        "C14.sequence_words" => {
            std::hint::black_box(BinaryCard::from_ckc(card::DECK[20]));
            for (i, w) in engine::parse_words(&case["words"])?.iter().enumerate() {
                word_clause(*w).map_err(|m| format!("call {}: {}", i + 1, m))?;
            }
            Ok(())
        }
        _ => Err(format!("unknown clause {}", clause)),
    }
}

/// soak step n: one conversion in each direction on a value derived from n
pub fn soak_step(n: u64) -> Result<(), String> {
    let c = card::DECK[(n % 52) as usize];
    let w = if (n / 52) % 4 == 3 { c ^ (1 << ((n / 208) % 32)) } else { c };
    if BinaryCard::from_ckc(w) != card::bit_of(w) {
        return Err(format!("from_ckc({}) = {:#x}, expected {:#x}", hex(w), BinaryCard::from_ckc(w), card::bit_of(w)));
    }
    let x: u64 = match (n / 52) % 4 {
        0 => 1u64 << (n % 64),
        1 => (1u64 << (n % 52)) | (1u64 << ((n / 7) % 64)),
        2 => (1u64 << (n % 52)) | (1u64 << ((n / 3) % 52)) | (1u64 << ((n / 11) % 52)),
        _ => 0,
    };
    let want = if x.count_ones() == 1 && x.trailing_zeros() < 52 { card::DECK[51 - x.trailing_zeros() as usize] } else { 0 };
    if CKCNumber::from_binary_card(x) != want {
        return Err(format!("from_binary_card({:#x}) = {}, expected {}", x, card::render(CKCNumber::from_binary_card(x)), card::render(want)));
    }
    Ok(())
}
