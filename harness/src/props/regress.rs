//! Replay tier: saved (shrunk) cases under <root>/regress/<ID>/*.json are re-checked first on
//! every run. File format = the replay files written on violation: {"clause": .., "case": ..}.

use crate::engine::{PResult, Run};
use serde_json::Value;

pub fn replay_dir(run: &mut Run, id: &str, check_case: fn(&str, &Value) -> Result<(), String>) -> PResult {
    if run.cold.is_some() {
        return Ok(());
    }
    let dir = run.root.join("regress").join(id);
    let mut files: Vec<_> = match std::fs::read_dir(&dir) {
        Ok(rd) => rd.filter_map(|e| e.ok()).map(|e| e.path()).filter(|p| p.extension().map(|x| x == "json").unwrap_or(false)).collect(),
        Err(_) => return Ok(()),
    };
    files.sort();
    let mut n = 0u64;
    for f in &files {
        let text = std::fs::read_to_string(f).unwrap_or_else(|e| panic!("read {}: {}", f.display(), e));
        let rec: Value = serde_json::from_str(&text).unwrap_or_else(|e| panic!("parse {}: {}", f.display(), e));
        let clause = rec["clause"].as_str().unwrap_or("").to_string();
        let case = rec.get("case").cloned().unwrap_or(Value::Null);
        n += 1;
        if let Err(m) = check_case(&clause, &case) {
            run.generator("saved regression cases", "replay", None, n, n, "");
            let name = f.file_name().map(|x| x.to_string_lossy().to_string()).unwrap_or_default();
            return run.violation(&clause, &format!("regress/{}", name), case, &m);
        }
    }
    if n > 0 {
        run.generator("saved regression cases", "replay", None, n, n, "hand-written edge cases and shrunk failures from seeded-defect runs; every one is non-trivial by construction");
    }
    Ok(())
}
