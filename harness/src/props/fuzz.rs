//! Thorough tier: coverage-guided libFuzzer campaigns. The targets live in <root>/fuzz and call
//! `props::<id>::check_bytes` — the semantic oracle runs inside the target. This module runs a
//! pre-built target for a fixed number of executions with a fixed seed and a fresh corpus
//! (seeded from fuzz/seeds/<target>), and converts a crash artifact into a shrunk replay case.

use crate::engine::{PResult, Run};
use serde_json::json;
use std::path::PathBuf;
use std::process::Command;

pub type ByteCheck = fn(&[u8]) -> Result<(), String>;

pub fn byte_check_of(target: &str) -> (ByteCheck, &'static str) {
    match target {
        "c04_words" => (super::c04::check_bytes, "C04"),
        "c12_text" => (super::c12::check_bytes, "C12"),
        "c15_bitset" => (super::c15::check_bytes, "C15"),
        "c19_containers" => (super::c19::check_bytes, "C19"),
        _ => panic!("unknown fuzz target {}", target),
    }
}

pub fn hex_encode(b: &[u8]) -> String {
    b.iter().map(|x| format!("{:02x}", x)).collect()
}

pub fn hex_decode(s: &str) -> Result<Vec<u8>, String> {
    if s.len() % 2 != 0 {
        return Err("odd hex length".into());
    }
    (0..s.len() / 2).map(|i| u8::from_str_radix(&s[2 * i..2 * i + 2], 16).map_err(|e| e.to_string())).collect()
}

fn clause_of(msg: &str) -> String {
    msg.split(':').next().unwrap_or("").trim().to_string()
}

/// delta-debugging on bytes: keep the failure's clause id
pub fn shrink_bytes(data: &[u8], check: ByteCheck) -> Vec<u8> {
    let want = match check(data) {
        Err(m) => clause_of(&m),
        Ok(()) => return data.to_vec(),
    };
    let still = |d: &[u8]| matches!(check(d), Err(m) if clause_of(&m) == want);
    let mut cur = data.to_vec();
    let mut chunk = cur.len().max(1) / 2;
    while chunk >= 1 {
        let mut i = 0;
        let mut progressed = false;
        while i + chunk <= cur.len() {
            let mut cand = cur.clone();
            cand.drain(i..i + chunk);
            if still(&cand) {
                cur = cand;
                progressed = true;
            } else {
                i += chunk;
            }
        }
        if !progressed {
            chunk /= 2;
        }
    }
    // lower byte values
    for i in 0..cur.len() {
        for v in [0u8, 1, b' ', b'0', b'A'] {
            if cur[i] > v {
                let mut cand = cur.clone();
                cand[i] = v;
                if still(&cand) {
                    cur = cand;
                    break;
                }
            }
        }
    }
    cur
}

fn target_binary(root: &PathBuf, target: &str) -> PathBuf {
    root.join("fuzz/target/x86_64-unknown-linux-gnu/release").join(target)
}

pub fn campaign(run: &mut Run, target: &str, runs: u64) -> PResult {
    let (check, _id) = byte_check_of(target);
    let bin = target_binary(&run.root, target);
    if !bin.exists() {
        panic!("fuzz target {} is not built (./check build)", bin.display());
    }
    let work = run.root.join("fuzz/work").join(format!("{}-{}", target, std::process::id()));
    let corpus = work.join("corpus");
    let arts = work.join("artifacts");
    let _ = std::fs::remove_dir_all(&work);
    std::fs::create_dir_all(&corpus).unwrap();
    std::fs::create_dir_all(&arts).unwrap();
    let seeds = run.root.join("fuzz/seeds").join(target);
    let seed_arg = ((run.seed % 0x7FFF_FFFE) + 1).to_string(); // libFuzzer: 0 means random
    let mut cmd = Command::new(&bin);
    cmd.arg(format!("-runs={}", runs))
        .arg(format!("-seed={}", seed_arg))
        .arg("-len_control=0")
        .arg("-max_len=256")
        .arg("-timeout=60")
        .arg("-print_final_stats=1")
        .arg(format!("-artifact_prefix={}/", arts.display()))
        .arg(&corpus);
    if seeds.exists() {
        cmd.arg(&seeds);
    }
    let out = cmd.output().expect("run fuzz target");
    let err = String::from_utf8_lossy(&out.stderr).to_string();
    let mut executed = 0u64;
    let mut cov = 0u64;
    for l in err.lines() {
        if let Some(x) = l.strip_prefix("stat::number_of_executed_units:") {
            executed = x.trim().parse().unwrap_or(0);
        }
        if l.contains(" cov: ") {
            if let Some(c) = l.split(" cov: ").nth(1).and_then(|r| r.split_whitespace().next()) {
                cov = c.parse().unwrap_or(cov);
            }
        }
    }
    let corpus_n = std::fs::read_dir(&corpus).map(|d| d.count() as u64).unwrap_or(0);
    // sample two corpus entries
    let mut samples = Vec::new();
    if let Ok(rd) = std::fs::read_dir(&corpus) {
        let mut fs: Vec<_> = rd.filter_map(|e| e.ok()).map(|e| e.path()).collect();
        fs.sort();
        for f in fs.iter().take(2) {
            if let Ok(b) = std::fs::read(f) {
                samples.push(hex_encode(&b));
            }
        }
    }
    let artifact: Option<Vec<u8>> = std::fs::read_dir(&arts).ok().and_then(|rd| {
        let mut fs: Vec<_> = rd.filter_map(|e| e.ok()).map(|e| e.path()).collect();
        fs.sort();
        fs.first().and_then(|f| std::fs::read(f).ok())
    });
    run.generator(
        &format!("libFuzzer campaign {}", target),
        "coverage-guided fuzzing",
        None,
        executed,
        corpus_n,
        &format!("-runs={} -seed={} -len_control=0, fresh corpus seeded from fuzz/seeds/{}; non-trivial = inputs kept in the corpus for reaching new coverage (cov {} edges)", runs, seed_arg, target, cov),
    );
    run.sample(json!({"fuzz_target": target, "corpus_entries_hex": samples}));
    let code = out.status.code();
    let _ = std::fs::remove_dir_all(&work);
    if let Some(bytes) = artifact {
        let small = shrink_bytes(&bytes, check);
        match check(&small) {
            Err(m) => {
                let clause = format!("{}.fuzz", _id);
                return run.violation(&clause, &hex_encode(&small), json!({"target": target, "bytes_hex": hex_encode(&small), "decoded": m}), &m);
            }
            Ok(()) => {
                // the artifact does not fail through the oracle: a crash outside it (timeout / OOM / harness)
                println!("INCONCLUSIVE fuzz target {} produced an artifact that the oracle accepts ({} bytes): {}", target, bytes.len(), hex_encode(&bytes));
                panic!("fuzz artifact not reproducible through the oracle");
            }
        }
    }
    if code != Some(0) {
        panic!("fuzz target {} exited with {:?}:\n{}", target, code, err.lines().rev().take(15).collect::<Vec<_>>().join("\n"));
    }
    Ok(())
}

/// replay of a saved fuzz case
pub fn check_fuzz_case(case: &serde_json::Value) -> Result<(), String> {
    let target = case["target"].as_str().ok_or("target missing")?;
    let bytes = hex_decode(case["bytes_hex"].as_str().ok_or("bytes_hex missing")?)?;
    let (check, _) = byte_check_of(target);
    check(&bytes)
}
