//! Six- and seven-card ranking: C02 (value = best contained five-card hand), C03 (witness),
//! C09 (monotonicity in the number of cards).

use super::common::*;
use crate::engine::enumerate::{choose, par_tuples, unrank, Acc};
use crate::engine::{self, factorial, guard, mix2, perm_from_index, pt, PResult, Run, Tier};
use crate::model::{card, poker};
use ckc_rs::cards::five::Five;
use ckc_rs::cards::seven::Seven;
use ckc_rs::cards::six::Six;
use ckc_rs::cards::HandRanker;
use serde_json::{json, Value};

// ---------------------------------------------------------------------------------------------
// size-generic access to the crate

pub trait HandN<const N: usize>: Sync {
    const NAME: &'static str;
    fn entries() -> &'static [Entry<N>];
    fn hrv(a: [u32; N]) -> u16;
    fn value_and_hand(a: [u32; N]) -> (u16, [u32; 5]);
    /// bitmask of entry points (index in entries()) whose value differs from exp
    fn all_entries_bad(a: [u32; N], exp: u16) -> u32;
    fn freq() -> &'static [u64; 9];
}

pub struct H5;
pub struct H6;
pub struct H7;

impl HandN<5> for H5 {
    const NAME: &'static str = "Five";
    fn entries() -> &'static [Entry<5>] {
        &FIVE_ENTRIES
    }
    #[inline(always)]
    fn hrv(a: [u32; 5]) -> u16 {
        Five::from(a).hand_rank_value()
    }
    #[inline(always)]
    fn value_and_hand(a: [u32; 5]) -> (u16, [u32; 5]) {
        let (v, h) = Five::from(a).hand_rank_value_and_hand();
        (v, h.to_arr())
    }
    #[inline(always)]
    fn all_entries_bad(a: [u32; 5], exp: u16) -> u32 {
        let mut bad = 0;
        for (i, e) in FIVE_ENTRIES.iter().enumerate() {
            if (e.1)(a) != exp {
                bad |= 1 << i;
            }
        }
        bad
    }
    fn freq() -> &'static [u64; 9] {
        &poker::FREQ5
    }
}

impl HandN<6> for H6 {
    const NAME: &'static str = "Six";
    fn entries() -> &'static [Entry<6>] {
        &SIX_ENTRIES
    }
    #[inline(always)]
    fn hrv(a: [u32; 6]) -> u16 {
        Six::from(a).hand_rank_value()
    }
    #[inline(always)]
    fn value_and_hand(a: [u32; 6]) -> (u16, [u32; 5]) {
        let (v, h) = Six::from(a).hand_rank_value_and_hand();
        (v, h.to_arr())
    }
    #[inline(always)]
    fn all_entries_bad(a: [u32; 6], exp: u16) -> u32 {
        let h = Six::from(a);
        let mut bad = 0;
        if h.hand_rank_value() != exp {
            bad |= 1;
        }
        if h.hand_rank_value_validated() != exp {
            bad |= 2;
        }
        if h.hand_rank().value != exp {
            bad |= 4;
        }
        if h.hand_rank_validated().value != exp {
            bad |= 8;
        }
        if h.hand_rank_value_and_hand().0 != exp {
            bad |= 16;
        }
        bad
    }
    fn freq() -> &'static [u64; 9] {
        &poker::FREQ6
    }
}

impl HandN<7> for H7 {
    const NAME: &'static str = "Seven";
    fn entries() -> &'static [Entry<7>] {
        &SEVEN_ENTRIES
    }
    #[inline(always)]
    fn hrv(a: [u32; 7]) -> u16 {
        Seven::from(a).hand_rank_value()
    }
    #[inline(always)]
    fn value_and_hand(a: [u32; 7]) -> (u16, [u32; 5]) {
        let (v, h) = Seven::from(a).hand_rank_value_and_hand();
        (v, h.to_arr())
    }
    #[inline(always)]
    fn all_entries_bad(a: [u32; 7], exp: u16) -> u32 {
        let h = Seven::from(a);
        let mut bad = 0;
        if h.hand_rank_value() != exp {
            bad |= 1;
        }
        if h.hand_rank_value_validated() != exp {
            bad |= 2;
        }
        if h.hand_rank().value != exp {
            bad |= 4;
        }
        if h.hand_rank_validated().value != exp {
            bad |= 8;
        }
        if h.hand_rank_value_and_hand().0 != exp {
            bad |= 16;
        }
        bad
    }
    fn freq() -> &'static [u64; 9] {
        &poker::FREQ7
    }
}

// ---------------------------------------------------------------------------------------------
// model side

/// positions of the five-subsets of N slots, lexicographic
pub fn pos_table<const N: usize>() -> Vec<[usize; 5]> {
    let mut v = Vec::new();
    poker::for_each_subset::<5>(N, |c| v.push(*c));
    v
}

/// (best ordinal, row of the first best five-subset, number of five-subsets attaining it)
#[inline]
pub fn model_best<const N: usize>(t: &poker::Tables, rows: &[[usize; 5]], c: &[u8; N]) -> (u16, usize, u32) {
    let mut best = u16::MAX;
    let mut which = 0;
    let mut ties = 0;
    for (i, r) in rows.iter().enumerate() {
        let o = poker::ord5_sorted(t, [c[r[0]], c[r[1]], c[r[2]], c[r[3]], c[r[4]]]);
        if o < best {
            best = o;
            which = i;
            ties = 1;
        } else if o == best {
            ties += 1;
        }
    }
    (best, which, ties)
}

#[inline]
pub fn pack<const N: usize>(c: &[u8; N]) -> u64 {
    let mut p = 0u64;
    for x in c {
        p = (p << 6) | *x as u64;
    }
    p
}

/// Validity predicate for a reported witness (C03). `input` holds distinct real cards.
pub fn witness_check(t: &poker::Tables, input: &[u32], v: u16, wit: &[u32; 5]) -> Result<(), String> {
    for (i, w) in wit.iter().enumerate() {
        if !input.contains(w) {
            return Err(format!("witness slot {} ({}) is not one of the input cards", i + 1, card::render(*w)));
        }
    }
    for i in 1..5 {
        if wit[i] == wit[i - 1] {
            return Err(format!("witness repeats {}", card::render(wit[i])));
        }
        if wit[i] > wit[i - 1] {
            return Err(format!("witness is not in descending card order at slot {}", i + 1));
        }
    }
    let own = guard(|| Five::from(*wit).hand_rank_value()).map_err(|m| format!("ranking the witness panicked: {}", m))?;
    if own != v {
        return Err(format!("the witness ranks {} on its own but the reported value is {}", own, v));
    }
    let cis = cis_of(wit).map_err(|e| format!("witness: {}", e))?;
    let m = poker::ord5_slow(t, [cis[0], cis[1], cis[2], cis[3], cis[4]]);
    if m != v {
        return Err(format!("the witness has strength ordinal {} but the reported value is {}", m, v));
    }
    Ok(())
}

// ---------------------------------------------------------------------------------------------
// the scan shared by C02 and C03

#[derive(Clone, Copy, PartialEq, Debug)]
pub enum Mode {
    Value,   // C02
    Witness, // C03
}

#[derive(Clone, Debug)]
pub struct Fail {
    pub words: Vec<u32>,
    pub clause: &'static str,
    pub detail: String,
    pub entry: String,
    pub expected: u16,
}

struct A {
    hands: u64,
    evals: u64,
    nontrivial: u64,
    cat: [u64; 9],
    row: Vec<u64>,
    fail: Option<Fail>,
    samples: Vec<(Vec<u8>, u16)>,
}

impl Acc for A {
    fn merge(&mut self, o: Self) {
        self.hands += o.hands;
        self.evals += o.evals;
        self.nontrivial += o.nontrivial;
        for i in 0..9 {
            self.cat[i] += o.cat[i];
        }
        for (a, b) in self.row.iter_mut().zip(o.row.iter()) {
            *a += *b;
        }
        if self.fail.is_none() {
            self.fail = o.fail;
        }
        if self.samples.len() < 3 {
            self.samples.extend(o.samples);
            self.samples.truncate(3);
        }
    }
    fn failed(&self) -> bool {
        self.fail.is_some()
    }
}

/// careful (per-call guarded) examination of one hand in one order; first failing clause
fn examine<const N: usize, H: HandN<N>>(t: &poker::Tables, w: [u32; N], exp: u16, mode: Mode) -> Option<Fail> {
    match mode {
        Mode::Value => {
            for e in H::entries() {
                let r = call(e.1, w);
                if r != Ok(exp) {
                    return Some(Fail {
                        words: w.to_vec(),
                        clause: "C02.value",
                        detail: format!("{} on {} returned {:?}; the best five-card hand it contains has ordinal {}", e.0, card::render_hand(&w), r, exp),
                        entry: e.0.to_string(),
                        expected: exp,
                    });
                }
            }
            None
        }
        Mode::Witness => {
            let r = guard(|| H::value_and_hand(w));
            match r {
                Err(m) => Some(Fail { words: w.to_vec(), clause: "C03.witness", detail: format!("hand_rank_value_and_hand panicked: {}", m), entry: String::new(), expected: exp }),
                Ok((v, wit)) => match witness_check(t, &w, v, &wit) {
                    Ok(()) => None,
                    Err(e) => Some(Fail {
                        words: w.to_vec(),
                        clause: "C03.witness",
                        detail: format!("{}::hand_rank_value_and_hand on {} reported ({}, {}): {}", H::NAME, card::render_hand(&w), v, card::render_hand(&wit), e),
                        entry: String::new(),
                        expected: exp,
                    }),
                },
            }
        }
    }
}

#[inline(always)]
fn fast_ok<const N: usize, H: HandN<N>>(t: &poker::Tables, w: [u32; N], exp: u16, mode: Mode, all_entries: bool) -> bool {
    match mode {
        Mode::Value => {
            if all_entries {
                H::all_entries_bad(w, exp) == 0
            } else {
                H::hrv(w) == exp
            }
        }
        Mode::Witness => {
            let (v, wit) = H::value_and_hand(w);
            // inline form of witness_check for the hot path
            let mut ok = wit[0] > wit[1] && wit[1] > wit[2] && wit[2] > wit[3] && wit[3] > wit[4];
            let mut ci = [0u8; 5];
            for i in 0..5 {
                ok &= w.contains(&wit[i]);
                match card::ci_of(wit[i]) {
                    Some(c) => ci[4 - i] = c as u8, // descending words = descending ci
                    None => ok = false,
                }
            }
            if !ok {
                return false;
            }
            ok &= poker::ord5_sorted(t, ci) == v;
            ok &= Five::from(wit).hand_rank_value() == v;
            ok
        }
    }
}

pub struct ScanCfg {
    /// keep a hand iff mix(seed, packed) % stratum == 0 (1 = all hands)
    pub stratum: u64,
    /// number of additional seeded slot orders per hand
    pub orders: u32,
}

fn scan<const N: usize, H: HandN<N>>(run: &mut Run, mode: Mode, cfg: &ScanCfg) -> PResult {
    let t = poker::tables();
    let rows = pos_table::<N>();
    let nfact = factorial(N as u64);
    let seed = run.seed;
    let total = choose(52, N as u64);
    let acc = par_tuples::<N, A>(
        52,
        true,
        || A { hands: 0, evals: 0, nontrivial: 0, cat: [0; 9], row: vec![0; rows.len()], fail: None, samples: Vec::new() },
        |acc, c| {
            let p = pack(c);
            if cfg.stratum > 1 && mix2(seed, p) % cfg.stratum != 0 {
                return true;
            }
            let (exp, which, ties) = model_best(t, &rows, c);
            let direct = poker::best_direct(t, c);
            if direct != exp {
                panic!("model forms disagree on {:?}: min-of-subsets {} direct {}", c, exp, direct);
            }
            let w = words_of_ci(c);
            // second canonical order: sorted descending (the order the crate's own sort produces)
            let mut wd = w;
            wd.reverse();
            let r = guard(|| {
                if !fast_ok::<N, H>(t, w, exp, mode, true) {
                    return Some(w);
                }
                if !fast_ok::<N, H>(t, wd, exp, mode, true) {
                    return Some(wd);
                }
                for k in 0..cfg.orders {
                    let pi = mix2(seed ^ (0x51_0000 + k as u64), p) % nfact;
                    let perm = perm_from_index::<N>(pi);
                    let wp = engine::apply_perm(&w, &perm);
                    if !fast_ok::<N, H>(t, wp, exp, mode, false) {
                        return Some(wp);
                    }
                }
                None
            });
            acc.hands += 1;
            acc.evals += match mode {
                Mode::Value => 2 * H::entries().len() as u64 + cfg.orders as u64,
                Mode::Witness => 2 + cfg.orders as u64,
            };
            match r {
                Ok(None) => {}
                Ok(Some(wbad)) => {
                    acc.fail = examine::<N, H>(t, wbad, exp, mode);
                    if acc.fail.is_none() {
                        let msg = engine::unstable_message(&format!("{}-card hand [{}]", N, card::render_hand(&wbad)), || guard(|| fast_ok::<N, H>(t, wbad, exp, mode, true)) == Ok(true));
                        acc.fail = Some(Fail { words: wbad.to_vec(), clause: if mode == Mode::Value { "C02.unstable" } else { "C03.unstable" }, detail: msg, entry: H::entries()[0].0.to_string(), expected: exp });
                    }
                    return false;
                }
                Err(_) => {
                    // a panic somewhere: find it with per-call guards
                    let mut f = examine::<N, H>(t, w, exp, mode);
                    if f.is_none() {
                        f = examine::<N, H>(t, wd, exp, mode);
                    }
                    let mut k = 0;
                    while f.is_none() && k < cfg.orders {
                        let pi = mix2(seed ^ (0x51_0000 + k as u64), p) % nfact;
                        let wp = engine::apply_perm(&w, &perm_from_index::<N>(pi));
                        f = examine::<N, H>(t, wp, exp, mode);
                        k += 1;
                    }
                    acc.fail = f;
                    if acc.fail.is_none() {
                        panic!("panic not reproducible on {:?}", c);
                    }
                    return false;
                }
            }
            acc.cat[poker::cat_of_ord(t, exp) as usize] += 1;
            if which != 0 {
                acc.nontrivial += 1;
            }
            if ties == 1 {
                acc.row[which] += 1;
            }
            if acc.samples.is_empty() && p % 1009 == 17 {
                acc.samples.push((c.to_vec(), exp));
            }
            true
        },
    );
    let complete = cfg.stratum == 1;
    let gname = format!(
        "{}-card subsets{}, ascending + descending slot order (all entries) + {} seeded orders",
        N,
        if complete { String::new() } else { format!(" (seeded 1-in-{} stratum)", cfg.stratum) },
        cfg.orders
    );
    run.generator(
        &gname,
        if complete { "exhaustive" } else { "exhaustive-stratum" },
        Some(total),
        acc.hands,
        acc.nontrivial,
        "cases = hands; non-trivial = the first five slots (canonical order) are not already a best hand",
    );
    run.extra.insert(format!("evaluations_{}", N), json!(acc.evals));
    if let Some(f) = &acc.fail {
        return report(run, f);
    }
    for (i, n) in acc.cat.iter().enumerate() {
        run.class(&format!("{}-card best:{}", N, poker::CAT_NAMES[i]), *n);
    }
    for (i, n) in acc.row.iter().enumerate() {
        run.class(&format!("{}-card unique best in slot combination {:?}", N, rows[i]), *n);
    }
    for (c, v) in &acc.samples {
        let cc: Vec<u32> = c.iter().map(|x| card::BY_CI[*x as usize]).collect();
        run.sample(json!({"cards": card::render_hand(&cc), "value": v, "class": poker::class_text(t.keys[*v as usize - 1]).1}));
    }
    if complete && &acc.cat != H::freq() {
        panic!("model best-hand frequencies for {} cards {:?} differ from the published {:?}", N, acc.cat, H::freq());
    }
    Ok(())
}

fn report(run: &mut Run, f: &Fail) -> PResult {
    let mut case = hand_json(&f.words);
    let o = case.as_object_mut().unwrap();
    o.insert("size".into(), json!(f.words.len()));
    if !f.entry.is_empty() {
        o.insert("entry".into(), json!(f.entry));
    }
    o.insert("expected".into(), json!(f.expected));
    let mut sorted = f.words.clone();
    sorted.sort_unstable_by(|a, b| b.cmp(a));
    run.violation(f.clause, &card::render_hand(&sorted), case, &f.detail)
}

/// random hands, every slot order. One proptest case = a batch of 64 hands (processed in
/// parallel); a failing batch shrinks to the single failing hand.
fn all_orders<const N: usize, H: HandN<N>>(run: &mut Run, mode: Mode, hands: u32) -> PResult {
    use rayon::prelude::*;
    const BATCH: usize = 64;
    let t = poker::tables();
    let rows = pos_table::<N>();
    let total = choose(52, N as u64);
    let nfact = factorial(N as u64);
    let cnt = std::cell::Cell::new(0u64);
    let stop_counting = std::cell::Cell::new(false);
    let distinct = std::cell::RefCell::new(engine::Distinct::new());
    let hand_bad = |idx: u64| -> bool {
        let c = unrank::<N>(52, idx);
        let (exp, _, _) = model_best(t, &rows, &c);
        let w = words_of_ci(&c);
        let r = guard(|| {
            for pi in 0..nfact {
                let wp = engine::apply_perm(&w, &perm_from_index::<N>(pi));
                if !fast_ok::<N, H>(t, wp, exp, mode, pi % 64 == 0) {
                    return true;
                }
            }
            false
        });
        r.unwrap_or(true)
    };
    let strat = proptest::collection::vec(0..total, 1..=BATCH);
    let res = pt::run(run.seed, 0xA110 + N as u64, (hands as usize / BATCH * 2) as u32, &strat, |batch| {
        if !stop_counting.get() {
            cnt.set(cnt.get() + batch.len() as u64);
            let mut d = distinct.borrow_mut();
            for i in &batch {
                d.insert(*i);
            }
        }
        match batch.par_iter().find_first(|idx| hand_bad(**idx)) {
            None => Ok(()),
            Some(idx) => {
                stop_counting.set(true);
                Err(format!("hand index {}", idx))
            }
        }
    });
    run.generator(
        &format!("random {}-card hands x all {} slot orders", N, nfact),
        "proptest",
        Some(total),
        cnt.get(),
        distinct.borrow().len(),
        "cases = hands (each evaluated under every slot order); generated in batches that shrink to one hand; distinct by subset index",
    );
    run.extra.insert(format!("evaluations_all_orders_{}", N), json!(cnt.get() * nfact));
    if let Err(f) = res {
        for idx in &f.value {
            if !hand_bad(*idx) {
                continue;
            }
            let c = unrank::<N>(52, *idx);
            let (exp, _, _) = model_best(t, &rows, &c);
            let w = words_of_ci(&c);
            // first failing order, examined carefully
            for pi in 0..nfact {
                let wp = engine::apply_perm(&w, &perm_from_index::<N>(pi));
                if let Some(fl) = examine::<N, H>(t, wp, exp, mode) {
                    return report(run, &fl);
                }
            }
        }
        panic!("all-orders failure not reproducible for {:?}", f.value);
    }
    Ok(())
}

/// thorough tier: every six-card subset under every one of the 720 slot orders
fn six_all_orders(run: &mut Run, mode: Mode) -> PResult {
    struct AO {
        n: u64,
        fail: Option<Fail>,
    }
    impl Acc for AO {
        fn merge(&mut self, o: Self) {
            self.n += o.n;
            if self.fail.is_none() {
                self.fail = o.fail.clone();
            }
        }
        fn failed(&self) -> bool {
            self.fail.is_some()
        }
    }
    let t = poker::tables();
    let rows = pos_table::<6>();
    let perms: Vec<[u8; 6]> = (0..720).map(perm_from_index::<6>).collect();
    let acc = par_tuples::<6, AO>(52, true, || AO { n: 0, fail: None }, |acc, c| {
        let (exp, _, _) = model_best(t, &rows, c);
        let w = words_of_ci(c);
        acc.n += 1;
        let r = guard(|| {
            for p in perms.iter() {
                let wp = engine::apply_perm(&w, p);
                if !fast_ok::<6, H6>(t, wp, exp, mode, false) {
                    return Some(wp);
                }
            }
            None
        });
        match r {
            Ok(None) => true,
            Ok(Some(wp)) => {
                acc.fail = examine::<6, H6>(t, wp, exp, mode);
                if acc.fail.is_none() {
                    let msg = engine::unstable_message(&format!("6-card hand [{}]", card::render_hand(&wp)), || guard(|| fast_ok::<6, H6>(t, wp, exp, mode, false)) == Ok(true));
                    acc.fail = Some(Fail { words: wp.to_vec(), clause: if mode == Mode::Value { "C02.unstable" } else { "C03.unstable" }, detail: msg, entry: SIX_ENTRIES[0].0.to_string(), expected: exp });
                }
                false
            }
            Err(_) => {
                acc.fail = perms.iter().find_map(|p| examine::<6, H6>(t, engine::apply_perm(&w, p), exp, mode));
                false
            }
        }
    });
    run.generator("all 6-card subsets x all 720 slot orders", "exhaustive", Some(choose(52, 6)), acc.n, acc.n, "cases = subsets, each under every slot order (14.66e9 evaluations)");
    run.extra.insert("evaluations_six_all_orders".into(), json!(acc.n * 720));
    if let Some(f) = &acc.fail {
        return report(run, f);
    }
    Ok(())
}

// ---------------------------------------------------------------------------------------------
// purity: ranking is a function of the hand alone (no state may leak between calls)

/// a neighbour of hand `c` (ascending ci): same shape, different cards
pub const NEIGHBOUR_KINDS: u8 = 7;

pub fn neighbour<const N: usize>(c: &[u8; N], kind: u8, param: u64) -> [u8; N] {
    let mut out = *c;
    match kind % NEIGHBOUR_KINDS {
        6 => {
            // two cards of different suits trade suits (keeps the sum and the XOR of the words, the
            // multiset of ranks and the multiset of suits)
            let i = (param % N as u64) as usize;
            for d in 1..N {
                let j = (i + d + ((param >> 8) as usize) % N) % N;
                if j == i || c[i] & 3 == c[j] & 3 || c[i] >> 2 == c[j] >> 2 {
                    continue;
                }
                let (ni, nj) = ((c[i] & !3) | (c[j] & 3), (c[j] & !3) | (c[i] & 3));
                if !c.contains(&ni) && !c.contains(&nj) {
                    out[i] = ni;
                    out[j] = nj;
                    break;
                }
            }
        }
        5 => {
            // move two cards that share a suit to another common suit (keeps every aggregate that
            // is computed slot by slot and cancels in pairs, e.g. the XOR of the words)
            let s = (param % 4) as u8;
            let idx: Vec<usize> = (0..N).filter(|i| c[*i] & 3 == s).collect();
            if idx.len() >= 2 {
                let i = idx[((param >> 8) as usize) % idx.len()];
                let mut j = idx[((param >> 16) as usize) % idx.len()];
                if i == j {
                    j = idx[(idx.iter().position(|x| *x == i).unwrap() + 1) % idx.len()];
                }
                for d in 1..4u8 {
                    let s2 = (s + d + ((param >> 24) % 3) as u8) % 4;
                    if s2 == s {
                        continue;
                    }
                    let (ni, nj) = ((c[i] & !3) | s2, (c[j] & !3) | s2);
                    if !c.contains(&ni) && !c.contains(&nj) {
                        out[i] = ni;
                        out[j] = nj;
                        break;
                    }
                }
            }
        }
        0 => {
            // relabel the suits
            let p = perm_from_index::<4>(param % 24);
            for x in out.iter_mut() {
                *x = (*x & !3) | p[(*x & 3) as usize];
            }
        }
        1 => {
            // replace one card by a card not in the hand
            let slot = (param % N as u64) as usize;
            let mut cand = ((param >> 8) % 52) as u8;
            while c.contains(&cand) {
                cand = (cand + 1) % 52;
            }
            out[slot] = cand;
        }
        2 => {
            // move one rank group (all cards of a present rank) to an absent rank, suits kept
            let present: Vec<u8> = (0..13u8).filter(|r| c.iter().any(|x| x >> 2 == *r)).collect();
            let absent: Vec<u8> = (0..13u8).filter(|r| !present.contains(r)).collect();
            if !absent.is_empty() {
                // prefer a rank held more than once
                let multi: Vec<u8> = present.iter().copied().filter(|r| c.iter().filter(|x| **x >> 2 == *r).count() > 1).collect();
                let pool = if multi.is_empty() { &present } else { &multi };
                let from = pool[(param % pool.len() as u64) as usize];
                let to = absent[((param >> 8) % absent.len() as u64) as usize];
                for x in out.iter_mut() {
                    if *x >> 2 == from {
                        *x = (to << 2) | (*x & 3);
                    }
                }
            }
        }
        3 => {
            // rotate all ranks
            let k = 1 + (param % 12) as u8;
            for x in out.iter_mut() {
                *x = (((*x >> 2) + k) % 13) << 2 | (*x & 3);
            }
        }
        _ => {
            // same cards, two slots swapped (a different array, same hand)
            let i = (param % N as u64) as usize;
            let j = ((param >> 8) % N as u64) as usize;
            out.swap(i, j);
        }
    }
    out
}

/// rank the hands of `seq` in order, on this thread, and compare every call with the model
fn sequence_check<const N: usize, H: HandN<N>>(seq: &[[u8; N]], mode: Mode) -> Result<(), String> {
    let t = poker::tables();
    // warm-up call with a fixed unrelated hand, so that whatever an earlier sequence (or an earlier
    // shrinking attempt) left behind in the code under test does not decide this sequence's outcome
    {
        let mut warm = [0u8; N];
        for (i, x) in warm.iter_mut().enumerate() {
            *x = [51u8, 47, 43, 39, 35, 0, 5][i]; // A♠ K♠ Q♠ J♠ T♠ 2♣ 3♦
        }
        let exp = poker::best_direct(t, &warm);
        let got = guard(|| H::hrv(words_of_ci(&warm)));
        if got != Ok(exp) {
            return Err(format!("warm-up call {}::hand_rank_value([{}]) returned {:?}, expected {}", H::NAME, card::render_hand(&words_of_ci(&warm)), got, exp));
        }
    }
    for (i, c) in seq.iter().enumerate() {
        let exp = poker::best_direct(t, c);
        let w = words_of_ci(c);
        let got = if mode == Mode::Witness {
            // the reported hand must be a valid witness of the model's value
            match guard(|| H::value_and_hand(w)) {
                Ok((v, wit)) => {
                    if N == 5 {
                        // five-card input: the reported hand is the input unchanged (no ordering clause)
                        if wit[..] != w[..] {
                            Err(format!("reported the hand [{}], not the input unchanged", card::render_hand(&wit)))
                        } else {
                            Ok(v)
                        }
                    } else if v != exp {
                        Ok(v)
                    } else {
                        witness_check(t, &w, v, &wit).map(|_| v)
                    }
                }
                Err(m) => Err(m),
            }
        } else {
            guard(|| H::hrv(w))
        };
        if got != Ok(exp) {
            let before: Vec<String> = seq[..i].iter().map(|h| card::render_hand(&words_of_ci(h))).collect();
            return Err(format!(
                "call {} of a sequence of {}::hand_rank_value calls: [{}] returned {:?}, the best five-card hand it contains has ordinal {} (calls before it, after a warm-up call on A♠ K♠ Q♠ J♠ T♠ 2♣ 3♦: {})",
                i + 1,
                H::NAME,
                card::render_hand(&w),
                got,
                exp,
                if before.is_empty() { "none".to_string() } else { before.join(" ; ") }
            ));
        }
    }
    Ok(())
}

pub fn purity<const N: usize, H: HandN<N>>(run: &mut Run, clause: &'static str, mode: Mode) -> PResult {
    let total = choose(52, N as u64);
    let cases: u32 = if run.tier == Tier::Thorough { 2_000_000 } else { 200_000 };
    let st = engine::RStats::new();
    let make = || (0..total, 0u8..NEIGHBOUR_KINDS, proptest::prelude::any::<u64>(), 0u8..NEIGHBOUR_KINDS, proptest::prelude::any::<u64>());
    let build = |(idx, k1, p1, k2, p2): (u64, u8, u64, u8, u64)| -> Vec<[u8; N]> {
        let a = unrank::<N>(52, idx);
        let b = neighbour(&a, k1, p1);
        let c = neighbour(&b, k2, p2);
        if p1 % 3 == 0 {
            // a longer history over a pool of up to six related hands, with immediate repeats
            // (A B C D A A ...): multi-entry memories, most-recently-used lists
            let d = neighbour(&c, (k1 + k2) % NEIGHBOUR_KINDS, p1 ^ p2);
            let e = unrank::<N>(52, (idx ^ p2) % choose(52, N as u64));
            let f = neighbour(&a, k2, p2.rotate_left(9));
            let pool = [a, b, c, d, e, f];
            let size = 3 + (p2 % 4) as usize; // 3..6 hands in play
            let len = 6 + (p1 >> 8) % 9; // 6..14 calls
            let mut s = crate::engine::SplitMix(p1 ^ p2.rotate_left(17));
            let mut seq: Vec<[u8; N]> = pool[..size].to_vec(); // first every hand once, in order
            let mut last = size - 1;
            for _ in 0..len {
                let r = s.next();
                let i = if r % 4 == 0 { last } else { (r >> 8) as usize % size };
                seq.push(pool[i]);
                last = i;
            }
            return seq;
        }
        vec![a, b, a, c, b, a]
    };
    // one shard: the point is back-to-back calls on one thread
    let res = pt::run(run.seed, 0x9E0 + N as u64, cases, &make(), |v| {
        let seq = build(v);
        st.note(mix2(v.0, mix2(v.2 ^ v.1 as u64, v.4 ^ v.3 as u64)), true, Some(&format!("neighbour kinds {} then {}", v.1, v.3)), || json!({"sequence": seq.iter().map(|h| card::render_hand(&words_of_ci(h))).collect::<Vec<_>>()}));
        sequence_check::<N, H>(&seq, mode).map_err(|e| {
            st.freeze();
            e
        })
    });
    st.flush(run, &format!("{}-card call sequences over neighbour hands (A B A C B A; one third: 9..20 calls over a pool of 3..6 hands)", N), "proptest (histories)", None, "neighbours: suits relabelled, one card replaced, a rank group moved to an absent rank, all ranks rotated, two slots swapped, two same-suited cards moved to another suit, two cards trading suits; every call compared with the model");
    if let Err(f) = res {
        let seq = build(f.value);
        // shortest failing prefix, then drop calls that are not needed
        let mut cur: Vec<[u8; N]> = seq.clone();
        for n in 1..=seq.len() {
            if sequence_check::<N, H>(&seq[..n], mode).is_err() {
                cur = seq[..n].to_vec();
                break;
            }
        }
        let mut i = 0;
        while cur.len() > 1 && i + 1 < cur.len() {
            let mut cand = cur.clone();
            cand.remove(i);
            if sequence_check::<N, H>(&cand, mode).is_err() {
                cur = cand;
            } else {
                i += 1;
            }
        }
        let m = sequence_check::<N, H>(&cur, mode).err().unwrap_or_else(|| "not reproducible".into());
        let hands: Vec<Value> = cur.iter().map(|h| hand_json(&words_of_ci(h))).collect();
        let sig = cur.iter().map(|h| card::render_hand(&words_of_ci(h))).collect::<Vec<_>>().join(" ; ");
        return run.violation(clause, &sig, json!({"size": N, "sequence": hands}), &m);
    }
    Ok(())
}

/// Call chains across hand sizes: a seven-card hand in a given slot order ranked k times, then its
/// six-card sub-hands (slot order kept) k times each, then five-card sub-hands — or the other way
/// round. Every call is compared with the model (value; in Witness mode also the reported hand).
pub fn chains(run: &mut Run, clause: &'static str, mode: Mode) -> PResult {
    use proptest::prelude::*;
    let t = poker::tables();
    let total = choose(52, 7);
    let cases: u32 = if run.tier == Tier::Thorough { 600_000 } else { 60_000 };
    let st = engine::RStats::new();
    // (subset, slot order, repetitions, direction, which slots to drop)
    let strat = (0..total, 0u64..5040, 1usize..=3, any::<bool>(), 0usize..7, 0usize..6);
    let build = |(idx, pi, _k, _down, d1, d2): (u64, u64, usize, bool, usize, usize)| -> (Vec<u8>, Vec<u8>, Vec<u8>) {
        let c = unrank::<7>(52, idx);
        let p = perm_from_index::<7>(pi);
        let seven: Vec<u8> = p.iter().map(|i| c[*i as usize]).collect();
        let mut six = seven.clone();
        six.remove(d1);
        let mut five = six.clone();
        five.remove(d2);
        (seven, six, five)
    };
    let one = |h: &[u8]| -> Result<(), String> {
        let w: Vec<u32> = h.iter().map(|c| card::BY_CI[*c as usize]).collect();
        let exp = poker::best_direct(t, h);
        let got: Result<(u16, [u32; 5]), String> = match h.len() {
            5 => guard(|| H5::value_and_hand(arr::<5>(&w).unwrap())),
            6 => guard(|| H6::value_and_hand(arr::<6>(&w).unwrap())),
            _ => guard(|| H7::value_and_hand(arr::<7>(&w).unwrap())),
        };
        let plain: Result<u16, String> = match h.len() {
            5 => guard(|| H5::hrv(arr::<5>(&w).unwrap())),
            6 => guard(|| H6::hrv(arr::<6>(&w).unwrap())),
            _ => guard(|| H7::hrv(arr::<7>(&w).unwrap())),
        };
        let (v, wit) = got.map_err(|m| format!("ranking [{}] panicked: {}", card::render_hand(&w), m))?;
        if v != exp || plain != Ok(exp) {
            return Err(format!("[{}] ranked {} / {:?} (with hand / value only), the best five-card hand it contains has ordinal {}", card::render_hand(&w), v, plain, exp));
        }
        if mode == Mode::Witness {
            if h.len() == 5 {
                if wit[..] != w[..] {
                    return Err(format!("[{}] reported the hand [{}], not the input unchanged", card::render_hand(&w), card::render_hand(&wit)));
                }
            } else {
                witness_check(t, &w, v, &wit).map_err(|e| format!("[{}] reported ({}, {}): {}", card::render_hand(&w), v, card::render_hand(&wit), e))?;
            }
        }
        Ok(())
    };
    let seq_of = |v: &(u64, u64, usize, bool, usize, usize)| -> Vec<Vec<u8>> {
        let (seven, six, five) = build(*v);
        let order: Vec<Vec<u8>> = if v.3 { vec![seven, six, five] } else { vec![five, six, seven] };
        let mut seq = Vec::new();
        for h in order {
            for _ in 0..v.2 {
                seq.push(h.clone());
            }
        }
        seq
    };
    let seq_check = |seq: &[Vec<u8>]| -> Result<(), String> {
        one(&[51u8, 47, 43, 39, 35, 0, 5])?; // warm-up
        for (i, h) in seq.iter().enumerate() {
            one(h).map_err(|m| format!("call {} of a chain across hand sizes: {}", i + 1, m))?;
        }
        Ok(())
    };
    let res = pt::run(run.seed, 0xC4A1 + mode as u64, cases, &strat, |v| {
        let seq = seq_of(&v);
        st.note(mix2(v.0 * 5040 + v.1, (v.2 as u64) << 8 | (v.3 as u64) << 7 | (v.4 as u64) << 3 | v.5 as u64), true, Some(if v.3 { "seven -> six -> five" } else { "five -> six -> seven" }), || {
            json!({"chain": seq.iter().map(|h| card::render_hand(&h.iter().map(|c| card::BY_CI[*c as usize]).collect::<Vec<_>>())).collect::<Vec<_>>()})
        });
        seq_check(&seq).map_err(|e| {
            st.freeze();
            e
        })
    });
    st.flush(run, "call chains across hand sizes (a seven-card hand, its six- and five-card sub-hands, each 1..3 times, either direction)", "proptest (histories)", None, "slot order kept when a card is dropped; every call compared with the model");
    if let Err(f) = res {
        let seq = seq_of(&f.value);
        let mut cur = seq.clone();
        for n in 1..=seq.len() {
            if seq_check(&seq[..n]).is_err() {
                cur = seq[..n].to_vec();
                break;
            }
        }
        let mut i = 0;
        while cur.len() > 1 && i + 1 < cur.len() {
            let mut cand = cur.clone();
            cand.remove(i);
            if seq_check(&cand).is_err() {
                cur = cand;
            } else {
                i += 1;
            }
        }
        let m = seq_check(&cur).err().unwrap_or_else(|| "not reproducible".into());
        let hands: Vec<Value> = cur.iter().map(|h| hand_json(&h.iter().map(|c| card::BY_CI[*c as usize]).collect::<Vec<_>>())).collect();
        let sig = cur.iter().map(|h| card::render_hand(&h.iter().map(|c| card::BY_CI[*c as usize]).collect::<Vec<_>>())).collect::<Vec<_>>().join(" ; ");
        return run.violation(clause, &sig, json!({"sequence": hands}), &m);
    }
    Ok(())
}

/// six- and seven-card hands built from every third class representative plus low extra cards
fn rep_hands() -> Vec<Vec<u32>> {
    let t = poker::tables();
    let mut v = Vec::new();
    for o in (1..=7462usize).step_by(3) {
        let five: Vec<u32> = t.rep[o].iter().map(|c| card::BY_CI[*c as usize]).collect();
        let extras: Vec<u32> = card::BY_CI.iter().copied().filter(|w| !five.contains(w)).take(2).collect();
        let mut six = five.clone();
        six.insert(2, extras[0]);
        let mut seven = six.clone();
        seven.insert(0, extras[1]);
        v.push(six);
        v.push(seven);
    }
    v
}

fn rep_value_check(ws: &Vec<u32>) -> Result<(), String> {
    let case = {
        let mut c = hand_json(ws);
        c.as_object_mut().unwrap().insert("entry".into(), json!(if ws.len() == 6 { SIX_ENTRIES[0].0 } else { SEVEN_ENTRIES[0].0 }));
        c
    };
    for e in 0..5 {
        let mut c = case.clone();
        c.as_object_mut().unwrap().insert("entry".into(), json!(if ws.len() == 6 { SIX_ENTRIES[e].0 } else { SEVEN_ENTRIES[e].0 }));
        check_case_c02("C02.value", &c)?;
    }
    Ok(())
}

// ---------------------------------------------------------------------------------------------
// C02

pub fn run_c02(run: &mut Run) -> PResult {
    run.rule = "call sequences A B A C B A over neighbour hands on one thread (ranking must not depend on earlier calls); every 6-card subset and (quick: a seeded 1-in-8 stratum of / thorough: every) 7-card subset of the deck in ascending and descending slot order through all five entry points, plus seeded slot orders per hand, plus random hands under every slot order (thorough: every 6-card subset under all 720 orders); expected = min ordinal over all five-subsets (model) which must also equal a direct rule-based n-card evaluation. Non-trivial = the best hand is not simply the first five slots; distinct = distinct subsets".into();
    run.assume("model self-checked: best-hand category frequencies equal the published 6- and 7-card counts whenever the enumeration is complete");
    let thorough = run.tier == Tier::Thorough;
    let twin = run.is_twin();
    super::regress::replay_dir(run, "C02", check_case_c02)?;
    disturbance_pass(run, &rep_hands(), &rep_value_check, &|ws| {
        let mut c = hand_json(ws);
        c.as_object_mut().unwrap().insert("entry".into(), json!(if ws.len() == 6 { SIX_ENTRIES[0].0 } else { SEVEN_ENTRIES[0].0 }));
        ("C02.value".into(), c, card::render_hand(ws))
    })?;
    if !twin {
        // first: ranking must be a function of the hand alone (a leak of state between calls would
        // make every later enumeration result depend on scheduling)
        purity::<6, H6>(run, "C02.sequence", Mode::Value)?;
        purity::<7, H7>(run, "C02.sequence", Mode::Value)?;
        chains(run, "C02.sequence", Mode::Value)?;
    }
    scan::<6, H6>(run, Mode::Value, &ScanCfg { stratum: 1, orders: if thorough { 4 } else { 1 } })?;
    scan::<7, H7>(run, Mode::Value, &ScanCfg { stratum: if thorough { 1 } else if twin { 32 } else { 8 }, orders: if thorough { 4 } else { 1 } })?;
    if !twin {
        all_orders::<6, H6>(run, Mode::Value, if thorough { 400_000 } else { 40_000 })?;
        all_orders::<7, H7>(run, Mode::Value, if thorough { 80_000 } else { 8_000 })?;
        if thorough {
            six_all_orders(run, Mode::Value)?;
        }
    }
    run.exhaustive = thorough;
    run.exhaustive_note = if thorough {
        "all six-card subsets under all 720 slot orders; all seven-card subsets ascending, descending and in 4 seeded orders (the 5,040 orders are sampled: all orders for 80,000 random hands)".into()
    } else {
        "all six-card subsets; seven-card subsets: seeded 1-in-8 stratum; slot orders sampled".into()
    };
    Ok(())
}

/// replay of a saved call sequence (hands of any of the three sizes, in the saved order)
pub fn check_sequence_case(case: &Value, mode: Mode) -> Result<(), String> {
    // warm-up as in the generators
    sequence_check::<7, H7>(&[], mode)?;
    for (i, h) in case["sequence"].as_array().ok_or("sequence")?.iter().enumerate() {
        let ws = engine::parse_words(&h["words"])?;
        let cis = cis_of(&ws)?;
        let r = match cis.len() {
            5 => sequence_step::<5, H5>(core::array::from_fn(|i| cis[i]), mode),
            6 => sequence_step::<6, H6>(core::array::from_fn(|i| cis[i]), mode),
            7 => sequence_step::<7, H7>(core::array::from_fn(|i| cis[i]), mode),
            n => return Err(format!("size {}", n)),
        };
        r.map_err(|m| format!("call {}: {}", i + 1, m))?;
    }
    Ok(())
}

/// one call of a replayed sequence, without the warm-up
fn sequence_step<const N: usize, H: HandN<N>>(c: [u8; N], mode: Mode) -> Result<(), String> {
    let t = poker::tables();
    let exp = poker::best_direct(t, &c);
    let w = words_of_ci(&c);
    let (v, wit) = guard(|| H::value_and_hand(w))?;
    let plain = guard(|| H::hrv(w))?;
    if v != exp || plain != exp {
        return Err(format!("[{}] ranked {} / {} (with hand / value only), the best five-card hand it contains has ordinal {}", card::render_hand(&w), v, plain, exp));
    }
    if mode == Mode::Witness {
        if N == 5 {
            if wit[..] != w[..] {
                return Err(format!("[{}] reported the hand [{}], not the input unchanged", card::render_hand(&w), card::render_hand(&wit)));
            }
        } else {
            witness_check(t, &w, v, &wit).map_err(|e| format!("[{}] reported ({}, {}): {}", card::render_hand(&w), v, card::render_hand(&wit), e))?;
        }
    }
    Ok(())
}

pub fn check_case_c02(clause: &str, case: &Value) -> Result<(), String> {
    let t = poker::tables();
    if clause.ends_with(".after_disturbance") || clause.ends_with(".concurrent") || clause.ends_with(".concurrent_cold_start") || clause.ends_with(".after_repetition") {
        return replay_after_disturbance(case, check_case_c02);
    }
    if clause == "C02.sequence" {
        return check_sequence_case(case, Mode::Value);
    }
    if clause != "C02.value" && clause != "C02.unstable" {
        return Err(format!("unknown clause {}", clause));
    }
    let ws = engine::parse_words(&case["words"])?;
    let cis = cis_of(&ws)?;
    let exp = poker::best_direct(t, &cis);
    let name = case["entry"].as_str().unwrap_or("");
    let got = match ws.len() {
        6 => call(entry_by_name(&SIX_ENTRIES, name).ok_or("unknown entry")?, arr::<6>(&ws)?),
        7 => call(entry_by_name(&SEVEN_ENTRIES, name).ok_or("unknown entry")?, arr::<7>(&ws)?),
        n => return Err(format!("size {}", n)),
    };
    if got != Ok(exp) {
        return Err(format!("{} on {} returned {:?}; the best five-card hand it contains has ordinal {}", name, card::render_hand(&ws), got, exp));
    }
    Ok(())
}

// ---------------------------------------------------------------------------------------------
// C03

struct A5 {
    n: u64,
    fail: Option<(Vec<u32>, String)>,
}
impl Acc for A5 {
    fn merge(&mut self, o: Self) {
        self.n += o.n;
        if self.fail.is_none() {
            self.fail = o.fail;
        }
    }
    fn failed(&self) -> bool {
        self.fail.is_some()
    }
}

fn five_identity(w: [u32; 5]) -> Result<(), String> {
    let r = guard(|| Five::from(w).hand_rank_value_and_hand());
    match r {
        Err(m) => Err(format!("panic: {}", m)),
        Ok((v, h)) => {
            if h.to_arr() != w {
                return Err(format!("Five::hand_rank_value_and_hand on {} reported the hand {}, not the input unchanged", card::render_hand(&w), card::render_hand(&h.to_arr())));
            }
            let own = guard(|| Five::from(h.to_arr()).hand_rank_value()).map_err(|m| format!("panic: {}", m))?;
            if own != v {
                return Err(format!("ranking the reported hand gives {} but the reported value is {}", own, v));
            }
            Ok(())
        }
    }
}

pub fn run_c03(run: &mut Run) -> PResult {
    run.rule = "same hand enumerations as C02 (ascending, descending, seeded and all slot orders), observing the reported five-card hand: validity predicate (five slots, all from the input, pairwise distinct, strictly descending, ranks to the reported value both by the crate and by the model); for five-card inputs (all subsets x all 120 orders) the reported hand must be the input unchanged. Non-trivial = six/seven-card hands whose best hand is not the first five slots, five-card hands in a non-sorted order; distinct = distinct subsets".into();
    run.assume("no claim about which of several equally ranked witnesses is chosen");
    let thorough = run.tier == Tier::Thorough;
    super::regress::replay_dir(run, "C03", check_case_c03)?;
    disturbance_pass(run, &rep_hands(), &|ws| check_case_c03("C03.witness", &hand_json(ws)), &|ws| ("C03.witness".into(), hand_json(ws), card::render_hand(ws)))?;
    if !run.is_twin() {
        purity::<5, H5>(run, "C03.sequence", Mode::Witness)?;
        purity::<6, H6>(run, "C03.sequence", Mode::Witness)?;
        purity::<7, H7>(run, "C03.sequence", Mode::Witness)?;
        chains(run, "C03.sequence", Mode::Witness)?;
    }
    // identity clause
    let perms = perms5();
    let acc = par_tuples::<5, A5>(
        52,
        true,
        || A5 { n: 0, fail: None },
        |acc, c| {
            let w = words_of_ci(c);
            acc.n += 1;
            let r = guard(|| {
                for p in perms.iter() {
                    let a = engine::apply_perm(&w, p);
                    let (v, h) = Five::from(a).hand_rank_value_and_hand();
                    if h.to_arr() != a || Five::from(h.to_arr()).hand_rank_value() != v {
                        return Some(a);
                    }
                }
                None
            });
            let bad = match r {
                Ok(None) => return true,
                Ok(Some(a)) => a,
                Err(_) => perms.iter().map(|p| engine::apply_perm(&w, p)).find(|a| five_identity(*a).is_err()).unwrap_or(w),
            };
            acc.fail = Some((bad.to_vec(), five_identity(bad).err().unwrap_or_else(|| "not reproducible".into())));
            false
        },
    );
    run.generator("five-subsets x 120 orders (identity clause)", "exhaustive", Some(choose(52, 5)), acc.n, acc.n, "cases = subsets; each under all 120 slot orders (119 of them not sorted)");
    if let Some((w, msg)) = &acc.fail {
        let mut s = w.clone();
        s.sort_unstable_by(|a, b| b.cmp(a));
        run.violation("C03.identity", &card::render_hand(&s), hand_json(w), msg)?;
    }
    let twin = run.is_twin();
    scan::<6, H6>(run, Mode::Witness, &ScanCfg { stratum: 1, orders: if thorough { 4 } else { 1 } })?;
    scan::<7, H7>(run, Mode::Witness, &ScanCfg { stratum: if thorough { 1 } else if twin { 32 } else { 8 }, orders: if thorough { 4 } else { 1 } })?;
    if !twin {
        all_orders::<6, H6>(run, Mode::Witness, if thorough { 400_000 } else { 40_000 })?;
        all_orders::<7, H7>(run, Mode::Witness, if thorough { 80_000 } else { 8_000 })?;
        if thorough {
            six_all_orders(run, Mode::Witness)?;
        }
    }
    run.exhaustive = thorough;
    run.exhaustive_note = if thorough { "all five-card hands x 120 orders; all six- and seven-card subsets in canonical order; other slot orders sampled".into() } else { "all five-card hands x 120 orders; all six-card subsets; seven-card subsets: seeded 1-in-8 stratum".into() };
    Ok(())
}

pub fn check_case_c03(clause: &str, case: &Value) -> Result<(), String> {
    if clause.ends_with(".after_disturbance") || clause.ends_with(".concurrent") || clause.ends_with(".concurrent_cold_start") || clause.ends_with(".after_repetition") {
        return replay_after_disturbance(case, check_case_c03);
    }
    if clause == "C03.sequence" {
        return check_sequence_case(case, Mode::Witness);
    }
    let t = poker::tables();
    let ws = engine::parse_words(&case["words"])?;
    match clause {
        "C03.identity" => five_identity(arr::<5>(&ws)?),
        "C03.witness" | "C03.unstable" => {
            cis_of(&ws)?;
            let (v, wit) = match ws.len() {
                6 => guard(|| H6::value_and_hand(arr::<6>(&ws).unwrap())),
                7 => guard(|| H7::value_and_hand(arr::<7>(&ws).unwrap())),
                n => return Err(format!("size {}", n)),
            }
            .map_err(|m| format!("hand_rank_value_and_hand panicked: {}", m))?;
            witness_check(t, &ws, v, &wit).map_err(|e| format!("on {} reported ({}, {}): {}", card::render_hand(&ws), v, card::render_hand(&wit), e))
        }
        _ => Err(format!("unknown clause {}", clause)),
    }
}

// ---------------------------------------------------------------------------------------------
// C09: metamorphic, no poker oracle

/// colex rank of an ascending K-subset
#[inline]
fn colex<const K: usize>(binom: &[[u32; 8]; 53], c: &[u8; K]) -> usize {
    let mut r = 0usize;
    for i in 0..K {
        r += binom[c[i] as usize][i + 1] as usize;
    }
    r
}

fn binom_table() -> [[u32; 8]; 53] {
    let mut b = [[0u32; 8]; 53];
    for n in 0..53 {
        for k in 0..8 {
            b[n][k] = if k as u64 > n as u64 { 0 } else { choose(n as u64, k as u64) as u32 };
        }
    }
    b
}

struct A9 {
    hands: u64,
    improved: u64,
    spare: [u64; 8],
    fail: Option<(Vec<u32>, String)>,
    sample: Option<(Vec<u32>, u16, Vec<u16>)>,
}
impl Acc for A9 {
    fn merge(&mut self, o: Self) {
        self.hands += o.hands;
        self.improved += o.improved;
        for i in 0..8 {
            self.spare[i] += o.spare[i];
        }
        if self.fail.is_none() {
            self.fail = o.fail;
        }
        if self.sample.is_none() {
            self.sample = o.sample;
        }
    }
    fn failed(&self) -> bool {
        self.fail.is_some()
    }
}

struct Fill {
    n: u64,
    fail: Option<(Vec<u32>, String)>,
}
impl Acc for Fill {
    fn merge(&mut self, o: Self) {
        self.n += o.n;
        if self.fail.is_none() {
            self.fail = o.fail;
        }
    }
    fn failed(&self) -> bool {
        self.fail.is_some()
    }
}

/// relation between an n-card value and the values of its (n-1)-card sub-hands
fn relation(v: Result<u16, String>, subs: &[Result<u16, String>]) -> Result<(), String> {
    let v = v.map_err(|m| format!("panic: {}", m))?;
    if !(1..=7462).contains(&v) {
        return Err(format!("value {} is outside 1..=7462", v));
    }
    let mut min = u16::MAX;
    for (i, s) in subs.iter().enumerate() {
        let s = s.clone().map_err(|m| format!("panic on sub-hand {}: {}", i, m))?;
        if !(1..=7462).contains(&s) {
            return Err(format!("sub-hand {} has value {} outside 1..=7462", i, s));
        }
        if v > s {
            return Err(format!("the hand has value {} but leaving out slot {} gives the better (smaller) value {}: more cards weakened the hand", v, i + 1, s));
        }
        min = min.min(s);
    }
    if v != min {
        return Err(format!("the hand has value {} but the best of its sub-hands has {}", v, min));
    }
    Ok(())
}

fn without<const N: usize, const M: usize>(c: &[u8; N], skip: usize) -> [u8; M] {
    let mut o = [0u8; M];
    let mut k = 0;
    for (i, x) in c.iter().enumerate() {
        if i != skip {
            o[k] = *x;
            k += 1;
        }
    }
    o
}

pub fn run_c09(run: &mut Run) -> PResult {
    run.rule = "every 6-card subset with its 6 five-card sub-hands and (quick: seeded 1-in-8 stratum / thorough: every) 7-card subset with its 7 six-card sub-hands, all values taken from the crate (memoised by combinatorial rank): v(n) <= v(sub) for every sub-hand and v(n) == min over sub-hands, values in 1..=7462. Non-trivial = hands where adding the last card strictly improves the value of the hand formed by the other cards; distinct = distinct subsets".into();
    run.assume("metamorphic relation only: no poker oracle is used here (C02 carries the rule-based oracle)");
    let thorough = run.tier == Tier::Thorough;
    super::regress::replay_dir(run, "C09", check_case_c09)?;
    disturbance_pass(run, &rep_hands(), &|ws| check_case_c09(if ws.len() == 6 { "C09.six" } else { "C09.seven" }, &hand_json(ws)), &|ws| ((if ws.len() == 6 { "C09.six" } else { "C09.seven" }).into(), hand_json(ws), card::render_hand(ws)))?;
    if !run.is_twin() {
        // the relation is between values of different calls: those values must not depend on call order
        purity::<6, H6>(run, "C09.sequence", Mode::Value)?;
        purity::<7, H7>(run, "C09.sequence", Mode::Value)?;
        chains(run, "C09.sequence", Mode::Value)?;
    }
    let binom = binom_table();
    let seed = run.seed;
    // memo tables, filled from the crate
    let n5 = choose(52, 5) as usize;
    let n6 = choose(52, 6) as usize;
    let v5: Vec<std::sync::atomic::AtomicU16> = (0..n5).map(|_| std::sync::atomic::AtomicU16::new(0)).collect();
    let v6: Vec<std::sync::atomic::AtomicU16> = (0..n6).map(|_| std::sync::atomic::AtomicU16::new(0)).collect();
    use std::sync::atomic::Ordering::Relaxed;
    let f5 = par_tuples::<5, Fill>(52, true, || Fill { n: 0, fail: None }, |acc, c| {
        let w = words_of_ci(c);
        match guard(|| Five::from(w).hand_rank_value()) {
            Ok(v) => v5[colex(&binom, c)].store(v, Relaxed),
            Err(m) => {
                acc.fail = Some((w.to_vec(), format!("Five::hand_rank_value panicked: {}", m)));
                return false;
            }
        }
        acc.n += 1;
        true
    });
    if let Some((w, m)) = &f5.fail {
        run.generator("five-card values", "exhaustive", Some(n5 as u64), f5.n, 0, "");
        return run.violation("C09.five", &card::render_hand(w), hand_json(w), m);
    }
    let a6 = par_tuples::<6, A9>(52, true, || A9 { hands: 0, improved: 0, spare: [0; 8], fail: None, sample: None }, |acc, c| {
        let w = words_of_ci(c);
        let v = guard(|| H6::hrv(w));
        if let Ok(x) = v {
            v6[colex(&binom, c)].store(x, Relaxed);
        }
        let subs: [u16; 6] = core::array::from_fn(|i| v5[colex(&binom, &without::<6, 5>(c, i))].load(Relaxed));
        acc.hands += 1;
        let ok = match &v {
            Ok(x) => (1..=7462).contains(x) && subs.iter().all(|s| x <= s) && subs.iter().any(|s| x == s),
            Err(_) => false,
        };
        if !ok {
            let subs_r: Vec<Result<u16, String>> = subs.iter().map(|s| Ok(*s)).collect();
            acc.fail = Some((w.to_vec(), relation(v, &subs_r).err().unwrap_or_else(|| "not reproducible".into())));
            return false;
        }
        let x = v.unwrap();
        acc.spare[subs.iter().filter(|s| x == **s).count().min(7)] += 1;
        if x < *subs.last().unwrap() {
            acc.improved += 1;
            if acc.sample.is_none() && pack(c) % 4099 == 5 {
                acc.sample = Some((w.to_vec(), x, subs.to_vec()));
            }
        }
        true
    });
    run.generator("six-subsets with their 6 five-card sub-hands", "exhaustive", Some(n6 as u64), a6.hands, a6.improved, "non-trivial = the card in the last slot strictly improves the hand: v6 < v5(first five slots)");
    if let Some((w, m)) = &a6.fail {
        return run.violation("C09.six", &card::render_hand(w), hand_json(w), &format!("Six {}: {}", card::render_hand(w), m));
    }
    for i in 0..8 {
        run.class(&format!("six-card hands with {} sub-hands attaining the value", i), a6.spare[i]);
    }
    if let Some((w, v, subs)) = &a6.sample {
        run.sample(json!({"cards": card::render_hand(w), "six_value": v, "five_values_leaving_out_each_slot": subs}));
    }
    let stratum = if thorough { 1 } else if run.is_twin() { 32 } else { 8 };
    let a7 = par_tuples::<7, A9>(52, true, || A9 { hands: 0, improved: 0, spare: [0; 8], fail: None, sample: None }, |acc, c| {
        if stratum > 1 && mix2(seed ^ 0x77, pack(c)) % stratum != 0 {
            return true;
        }
        let w = words_of_ci(c);
        let v = guard(|| H7::hrv(w));
        let subs: [u16; 7] = core::array::from_fn(|i| v6[colex(&binom, &without::<7, 6>(c, i))].load(Relaxed));
        acc.hands += 1;
        let ok = match &v {
            Ok(x) => (1..=7462).contains(x) && subs.iter().all(|s| x <= s) && subs.iter().any(|s| x == s),
            Err(_) => false,
        };
        if !ok {
            let subs_r: Vec<Result<u16, String>> = subs.iter().map(|s| Ok(*s)).collect();
            acc.fail = Some((w.to_vec(), relation(v, &subs_r).err().unwrap_or_else(|| "not reproducible".into())));
            return false;
        }
        let x = v.unwrap();
        acc.spare[subs.iter().filter(|s| x == **s).count().min(7)] += 1;
        if x < *subs.last().unwrap() {
            acc.improved += 1;
            if acc.sample.is_none() && pack(c) % 4099 == 5 {
                acc.sample = Some((w.to_vec(), x, subs.to_vec()));
            }
        }
        true
    });
    run.generator(
        if thorough { "seven-subsets with their 7 six-card sub-hands" } else { "seven-subsets (seeded 1-in-8 stratum) with their 7 six-card sub-hands" },
        if thorough { "exhaustive" } else { "exhaustive-stratum" },
        Some(choose(52, 7)),
        a7.hands,
        a7.improved,
        "non-trivial = the card in the last slot strictly improves the hand: v7 < v6(first six slots)",
    );
    if let Some((w, m)) = &a7.fail {
        return run.violation("C09.seven", &card::render_hand(w), hand_json(w), &format!("Seven {}: {}", card::render_hand(w), m));
    }
    for i in 0..8 {
        run.class(&format!("seven-card hands with {} sub-hands attaining the value", i), a7.spare[i]);
    }
    if let Some((w, v, subs)) = &a7.sample {
        run.sample(json!({"cards": card::render_hand(w), "seven_value": v, "six_values_leaving_out_each_slot": subs}));
    }
    run.exhaustive = thorough;
    run.exhaustive_note = if thorough { "all six- and seven-card subsets with all their sub-hands (canonical slot order)".into() } else { "all six-card subsets; seven-card subsets: seeded 1-in-8 stratum".into() };
    Ok(())
}

pub fn check_case_c09(clause: &str, case: &Value) -> Result<(), String> {
    if clause.ends_with(".after_disturbance") || clause.ends_with(".concurrent") || clause.ends_with(".concurrent_cold_start") || clause.ends_with(".after_repetition") {
        return replay_after_disturbance(case, check_case_c09);
    }
    if clause == "C09.sequence" {
        return check_sequence_case(case, Mode::Value);
    }
    let ws = engine::parse_words(&case["words"])?;
    cis_of(&ws)?;
    match clause {
        "C09.five" => guard(|| Five::from(arr::<5>(&ws).unwrap()).hand_rank_value()).map(|_| ()).map_err(|m| format!("Five::hand_rank_value panicked: {}", m)),
        "C09.six" => {
            let a = arr::<6>(&ws)?;
            let v = guard(|| H6::hrv(a));
            let subs: Vec<Result<u16, String>> = (0..6)
                .map(|i| {
                    let s: Vec<u32> = a.iter().enumerate().filter(|(j, _)| *j != i).map(|(_, x)| *x).collect();
                    guard(|| Five::from(arr::<5>(&s).unwrap()).hand_rank_value())
                })
                .collect();
            relation(v, &subs)
        }
        "C09.seven" => {
            let a = arr::<7>(&ws)?;
            let v = guard(|| H7::hrv(a));
            let subs: Vec<Result<u16, String>> = (0..7)
                .map(|i| {
                    let s: Vec<u32> = a.iter().enumerate().filter(|(j, _)| *j != i).map(|(_, x)| *x).collect();
                    guard(|| H6::hrv(arr::<6>(&s).unwrap()))
                })
                .collect();
            relation(v, &subs)
        }
        _ => Err(format!("unknown clause {}", clause)),
    }
}
