//! C18 — deck and published combination tables are complete and duplicate-free.

use crate::engine::{self, guard, pt, PResult, Run, Tier};
use crate::model::card;
use ckc_rs::cards::four::Four;
use ckc_rs::cards::seven::Seven;
use ckc_rs::cards::six::Six;
use ckc_rs::cards::two::Two;
use ckc_rs::deck::{Deck, POKER_DECK};
use serde_json::{json, Value};
use std::collections::BTreeSet;

fn deck_clause() -> Result<(), String> {
    let a = POKER_DECK.arr();
    if a.len() != 52 || Deck::len() != 52 || ckc_rs::deck::DECK_SIZE != 52 {
        return Err(format!("deck length {} / Deck::len() {}", a.len(), Deck::len()));
    }
    for i in 0..52 {
        if a[i] != card::DECK[i] {
            return Err(format!("deck position {} holds {}, expected {} (spades, hearts, diamonds, clubs; ace down to deuce)", i, card::render(a[i]), card::render(card::DECK[i])));
        }
    }
    let set: BTreeSet<u32> = a.iter().copied().collect();
    if set.len() != 52 || a.iter().any(|w| !card::is_card(*w)) {
        return Err("the deck does not list each of the 52 cards exactly once".into());
    }
    Ok(())
}

fn index_clause(i: usize) -> Result<(), String> {
    let got = guard(|| Deck::get(i)).map_err(|m| format!("Deck::get({}) panicked: {}", i, m))?;
    let want = if i < 52 { card::DECK[i] } else { 0 };
    if got != want {
        return Err(format!("Deck::get({}) = {}, expected {}", i, card::render(got), card::render(want)));
    }
    Ok(())
}

/// preset starting-hand table against the full set of combinations it should hold
fn preset_clause(name: &str, table: &[Two], hi: u32, lo: u32, suited: Option<bool>) -> Result<(), String> {
    let mut want: BTreeSet<(u32, u32)> = BTreeSet::new();
    for s1 in 0..4 {
        for s2 in 0..4 {
            if hi == lo {
                if s1 > s2 {
                    want.insert((card::word(hi, s1), card::word(lo, s2)));
                }
            } else {
                match suited {
                    Some(true) if s1 != s2 => continue,
                    Some(false) if s1 == s2 => continue,
                    _ => {}
                }
                want.insert((card::word(hi, s1), card::word(lo, s2)));
            }
        }
    }
    let mut seen: BTreeSet<(u32, u32)> = BTreeSet::new();
    for (i, t) in table.iter().enumerate() {
        let a = t.to_arr();
        let (x, y) = (a[0], a[1]);
        let hand = card::render_hand(&a);
        let (dx, dy) = (card::decode(x), card::decode(y));
        if dx.is_none() || dy.is_none() {
            return Err(format!("Two::{}[{}] = [{}] holds a non-card", name, i, hand));
        }
        if !(x > y) {
            return Err(format!("Two::{}[{}] = [{}] does not list the higher card first", name, i, hand));
        }
        if !want.contains(&(x, y)) {
            return Err(format!("Two::{}[{}] = [{}] is not one of the combinations the table describes", name, i, hand));
        }
        if !seen.insert((x, y)) {
            return Err(format!("Two::{}[{}] = [{}] occurs twice", name, i, hand));
        }
    }
    if seen.len() != want.len() {
        let missing: Vec<String> = want.difference(&seen).map(|(x, y)| format!("{} {}", card::render(*x), card::render(*y))).collect();
        return Err(format!("Two::{} holds {} of the {} combinations; missing: {}", name, seen.len(), want.len(), missing.join(", ")));
    }
    Ok(())
}

fn slot_table_clause<const K: usize>(name: &str, table: &[[u8; K]], n: usize) -> Result<(), String> {
    let mut want: BTreeSet<Vec<u8>> = BTreeSet::new();
    // all K-subsets of 0..n
    let mut c: Vec<usize> = (0..K).collect();
    loop {
        want.insert(c.iter().map(|x| *x as u8).collect());
        let mut i = K;
        while i > 0 && c[i - 1] == i - 1 + n - K {
            i -= 1;
        }
        if i == 0 {
            break;
        }
        c[i - 1] += 1;
        for j in i..K {
            c[j] = c[j - 1] + 1;
        }
    }
    let mut seen = BTreeSet::new();
    for (i, row) in table.iter().enumerate() {
        if row.iter().any(|x| *x as usize >= n) {
            return Err(format!("{}[{}] = {:?} has an index outside 0..{}", name, i, row, n));
        }
        if row.windows(2).any(|p| p[0] >= p[1]) {
            return Err(format!("{}[{}] = {:?} is not strictly increasing", name, i, row));
        }
        if !seen.insert(row.to_vec()) {
            return Err(format!("{}[{}] = {:?} occurs twice", name, i, row));
        }
    }
    if seen != want {
        let missing: Vec<String> = want.difference(&seen).map(|r| format!("{:?}", r)).collect();
        return Err(format!("{} lists {} of the {} slot combinations; missing {}", name, seen.len(), want.len(), missing.join(" ")));
    }
    Ok(())
}

fn tables() -> Vec<(&'static str, u64, Result<(), String>)> {
    vec![
        ("deck", 52, deck_clause()),
        ("Two::AA", 6, preset_clause("AA", &Two::AA, 12, 12, None)),
        ("Two::AK", 16, preset_clause("AK", &Two::AK, 12, 11, None)),
        ("Two::AKs", 4, preset_clause("AKs", &Two::AKs, 12, 11, Some(true))),
        ("Two::AKo", 12, preset_clause("AKo", &Two::AKo, 12, 11, Some(false))),
        ("Two::AQs", 4, preset_clause("AQs", &Two::AQs, 12, 10, Some(true))),
        ("Two::AQo", 12, preset_clause("AQo", &Two::AQo, 12, 10, Some(false))),
        ("Four::OMAHA_PERMUTATIONS", 6, slot_table_clause::<2>("Four::OMAHA_PERMUTATIONS", &Four::OMAHA_PERMUTATIONS, 4)),
        ("Six::FIVE_CARD_PERMUTATIONS", 6, slot_table_clause::<5>("Six::FIVE_CARD_PERMUTATIONS", &Six::FIVE_CARD_PERMUTATIONS, 6)),
        ("Seven::FIVE_CARD_PERMUTATIONS", 21, slot_table_clause::<5>("Seven::FIVE_CARD_PERMUTATIONS", &Seven::FIVE_CARD_PERMUTATIONS, 7)),
    ]
}

pub fn run(run: &mut Run) -> PResult {
    run.rule = "every entry of the deck, the six preset starting-hand tables and the three slot-index tables against the generated full set of combinations each should enumerate (membership both ways, no duplicate, cardinality, suitedness split, higher card first, rows strictly increasing and in range); Deck::get for every index 0..4096, around every power of two, usize::MAX and proptest usize values. 'Generation' here is the enumeration of the combination space the table must equal. Non-trivial = table entries (none of the 2-of-4 rows, seven-card rows 8-19 and 50 of the 54 preset hands is referenced by a test) and out-of-range indexes; distinct = distinct entries / indexes".into();
    run.assume("the order of rows within a table is not asserted (only within a row: increasing / higher card first)");
    super::regress::replay_dir(run, "C18", check_case)?;
    {
        let idx: Vec<usize> = (0..70).chain([4095, 4096, 1 << 32, (1usize << 32) + 5, usize::MAX - 1, usize::MAX]).collect();
        super::common::disturbance_pass(run, &idx, &|i| index_clause(*i), &|i| ("C18.index".into(), json!({"index": *i as u64}), format!("{}", i)))?;
        let names: Vec<&'static str> = tables().iter().map(|t| t.0).collect();
        super::common::disturbance_pass(run, &names, &|n| tables().into_iter().find(|t| t.0 == *n).map(|t| t.2).unwrap_or(Ok(())), &|n| ("C18.table".into(), json!({"table": n}), n.to_string()))?;
    }
    super::common::count_soak(run, "Deck::get", (1 << 30) + (1 << 16), &|n| {
        let i = match n % 8 {
            0..=5 => (n / 8 % 52) as usize,
            6 => 52 + (n / 8 % 12) as usize,
            _ => (n as usize).wrapping_mul(0x9E37_79B9_7F4A_7C15),
        };
        let want = if i < 52 { card::DECK[i] } else { 0 };
        if Deck::get(i) != want {
            return Err(format!("Deck::get({}) = {}, expected {}", i, card::render(Deck::get(i)), card::render(want)));
        }
        Ok(())
    })?;
    let mut total = 0u64;
    for (name, n, r) in tables() {
        total += n;
        if let Err(m) = r {
            run.generator("table entries", "exhaustive", None, total, total, "");
            return run.violation("C18.table", name, json!({"table": name}), &m);
        }
        run.class(&format!("entries checked in {}", name), n);
    }
    run.generator("table entries", "exhaustive", Some(total), total, total, "52 deck slots, 54 preset hands, 33 slot-index rows");
    run.sample(json!({"table": "Seven::FIVE_CARD_PERMUTATIONS", "rows": 21, "row_11": Seven::FIVE_CARD_PERMUTATIONS[11]}));
    run.sample(json!({"table": "Two::AKo", "first": card::render_hand(&Two::AKo[0].to_arr())}));
    // indexes
    let mut idx: Vec<usize> = (0..4096).collect();
    for b in 0..usize::BITS {
        let p = 1usize << b;
        idx.extend([p.wrapping_sub(1), p, p.wrapping_add(1)]);
    }
    idx.extend([usize::MAX, usize::MAX - 1, usize::MAX / 2, 52, 53, 51]);
    idx.sort_unstable();
    idx.dedup();
    let n = idx.len() as u64;
    for i in &idx {
        if let Err(m) = index_clause(*i) {
            run.generator("structured deck indexes", "exhaustive+structured", None, n, n - 52, "");
            return run.violation("C18.index", &format!("{}", i), json!({"index": *i as u64}), &m);
        }
    }
    run.generator("structured deck indexes", "exhaustive+structured", None, n, n - 52, "0..4096, powers of two +-1, usize::MAX; non-trivial = indexes at or past the end");
    if !run.is_twin() {
        let items: Vec<usize> = (0..130).chain([4095, 4096, (1usize << 32) - 1, 1usize << 32, (1usize << 32) + 1, (1usize << 32) + 51, usize::MAX - 1, usize::MAX]).collect();
        let hit = engine::ordered_pairs(&items, &|a| { std::hint::black_box(Deck::get(*a)); }, &|b| index_clause(*b));
        let np = (items.len() * items.len()) as u64;
        run.generator("ordered pairs of deck indexes read back to back", "exhaustive (histories of length 2)", Some(np), np, np, "0..130 and the extreme indexes");
        if let Some((a, b, m)) = hit {
            return run.violation("C18.index", &format!("{} ; {}", items[a], items[b]), json!({"index": items[b] as u64, "after": items[a] as u64}), &format!("after Deck::get({}): {}", items[a], m));
        }
    }
    let cases = (if run.tier == Tier::Thorough { 1_000_000 } else { 100_000 }) / if run.is_twin() { 4 } else { 1 };
    let cnt = std::cell::Cell::new(0u64);
    let distinct = std::cell::RefCell::new(engine::Distinct::new());
    use proptest::prelude::*;
    let strat = prop_oneof![3 => any::<usize>(), 1 => 0usize..128, 1 => (0u32..64, any::<usize>()).prop_map(|(b, x)| x >> b)];
    let res = pt::run(run.seed, 0xC18, cases, &strat, |i| {
        if cnt.get() < cases as u64 {
            cnt.set(cnt.get() + 1);
            if i >= 52 {
                distinct.borrow_mut().insert(i as u64);
            }
        }
        index_clause(i)
    });
    run.generator("proptest usize deck indexes", "proptest", None, cnt.get(), distinct.borrow().len(), "any usize, small values, values of every bit length; non-trivial = out of range");
    if let Err(f) = res {
        let m = index_clause(f.value).err().unwrap_or_default();
        return run.violation("C18.index", &format!("{}", f.value), json!({"index": f.value as u64}), &m);
    }
    run.exhaustive = true;
    run.exhaustive_note = "every table entry; deck indexes: all index classes (in range, at the end, past it, usize::MAX) plus a sample of the 2^64 values".into();
    Ok(())
}

pub fn check_case(clause: &str, case: &Value) -> Result<(), String> {
    if clause.ends_with(".soak") {
        return Err("the Deck::get soak is replayed by running ./check C18 quick".into());
    }
    if clause.ends_with(".after_disturbance") || clause.ends_with(".concurrent") || clause.ends_with(".concurrent_cold_start") || clause.ends_with(".after_repetition") {
        return super::common::replay_after_disturbance(case, check_case);
    }
    match clause {
        "C18.table" => {
            let want = case["table"].as_str().unwrap_or("");
            for (name, _, r) in tables() {
                if name == want {
                    return r;
                }
            }
            Err("unknown table".into())
        }
        "C18.index" => {
            if let Some(a) = case.get("after").and_then(|x| x.as_u64()) {
                std::hint::black_box(Deck::get(a as usize));
            }
            index_clause(case["index"].as_u64().ok_or("index")? as usize)
        }
        _ => Err(format!("unknown clause {}", clause)),
    }
}

