//! C07 — hand ranks form a lawful total order in which stronger hands are greater.

use crate::engine::enumerate::{par_range, Acc};
use crate::engine::{guard, PResult, Run};
use ckc_rs::hand_rank::{HandRank, HandRankClass, HandRankName};
use serde_json::{json, Value};
use std::cmp::Ordering;
use strum::IntoEnumIterator;

struct A {
    pairs: u64,
    nontrivial: u64,
    fail: Option<(u16, u16)>,
}
impl Acc for A {
    fn merge(&mut self, o: Self) {
        self.pairs += o.pairs;
        self.nontrivial += o.nontrivial;
        if self.fail.is_none() {
            self.fail = o.fail;
        }
    }
    fn failed(&self) -> bool {
        self.fail.is_some()
    }
}

fn valid(v: u16) -> bool {
    (1..=7462).contains(&v)
}

/// all pairwise clauses that do not need the derived key
fn pair_clauses(a: u16, b: u16) -> Result<(), String> {
    // conversion must be a function of the value: convert a, then b, then each again in isolation
    let (ra, rb) = (HandRank::from(a), HandRank::from(b));
    let (ra2, rb2) = (HandRank::from(a), HandRank::from(a));
    let rb3 = HandRank::from(b);
    if ra2 != rb2 || ra != ra2 || rb != rb3 {
        return Err(format!("HandRank::from is not a function of its argument: from({}) then from({}) gave {:?} / {:?}, repeating the conversions gives {:?} / {:?}", a, b, (ra.value, ra.name), (rb.value, rb.name), (ra2.value, ra2.name), (rb3.value, rb3.name)));
    }
    let c = guard(|| ra.cmp(&rb)).map_err(|m| format!("cmp panicked: {}", m))?;
    let d = |x: u16| format!("from({})", x);
    if ra.partial_cmp(&rb) != Some(c) {
        return Err(format!("{}.partial_cmp({}) = {:?} but cmp = {:?}", d(a), d(b), ra.partial_cmp(&rb), c));
    }
    let ops = (ra < rb, ra <= rb, ra > rb, ra >= rb);
    let want = (c == Ordering::Less, c != Ordering::Greater, c == Ordering::Greater, c != Ordering::Less);
    if ops != want {
        return Err(format!("operators (<,<=,>,>=) on {} vs {} give {:?} but cmp = {:?}", d(a), d(b), ops, c));
    }
    if (c == Ordering::Equal) != (ra == rb) {
        return Err(format!("{} vs {}: cmp = {:?} but == is {} (two ranks must compare equal only when they are equal)", d(a), d(b), c, ra == rb));
    }
    if rb.cmp(&ra) != c.reverse() {
        return Err(format!("{} vs {}: cmp = {:?} but the reverse comparison is {:?} (antisymmetry)", d(a), d(b), c, rb.cmp(&ra)));
    }
    if valid(a) && valid(b) {
        let w = b.cmp(&a); // lower value = stronger = greater
        if c != w {
            return Err(format!("{} vs {}: both valid, cmp = {:?}, expected {:?} (a lower value is a stronger hand and compares greater)", d(a), d(b), c, w));
        }
    }
    if !valid(a) && valid(b) && c != Ordering::Less {
        return Err(format!("{} (invalid) vs {} (valid): cmp = {:?}, every invalid rank must compare below every valid one", d(a), d(b), c));
    }
    if valid(a) && !valid(b) && c != Ordering::Greater {
        return Err(format!("{} (valid) vs {} (invalid): cmp = {:?}, every invalid rank must compare below every valid one", d(a), d(b), c));
    }
    Ok(())
}

fn enum_clauses() -> Result<(u64, u64), (String, String)> {
    let mut n = 0u64;
    let mut strict = 0u64;
    for v in 1..7462u16 {
        let (a, b) = (HandRank::from(v), HandRank::from(v + 1));
        n += 1;
        if a.name > b.name {
            return Err((format!("name:{}", v), format!("category of value {} ({:?}) sorts after the category of the weaker value {} ({:?})", v, a.name, v + 1, b.name)));
        }
        if a.class > b.class {
            return Err((format!("class:{}", v), format!("class of value {} ({:?}) sorts after the class of the weaker value {} ({:?})", v, a.class, v + 1, b.class)));
        }
        if a.class != b.class {
            strict += 1;
            if !(a.class < b.class) {
                return Err((format!("class:{}", v), format!("classes {:?} and {:?} differ but do not compare strictly", a.class, b.class)));
            }
        }
        if a.name != b.name && !(a.name < b.name) {
            return Err((format!("name:{}", v), format!("categories {:?} and {:?} differ but do not compare strictly", a.name, b.name)));
        }
    }
    for c in HandRankClass::iter() {
        n += 1;
        if c != HandRankClass::Invalid && !(c < HandRankClass::Invalid) {
            return Err((format!("class-invalid:{:?}", c), format!("class {:?} does not sort before Invalid", c)));
        }
    }
    for c in HandRankName::iter() {
        n += 1;
        if c != HandRankName::Invalid && !(c < HandRankName::Invalid) {
            return Err((format!("name-invalid:{:?}", c), format!("category {:?} does not sort before Invalid", c)));
        }
    }
    Ok((n, strict))
}

pub fn run(run: &mut Run) -> PResult {
    run.rule = "all 65,536 x 65,536 ordered pairs (from(a), from(b)): pass 1 derives the integer key(a) = #{b : from(b) < from(a)} from the implementation; pass 2 requires cmp(a,b) == key(a).cmp(key(b)) for every pair (an integer key settles reflexivity, antisymmetry and transitivity over all triples), partial_cmp == Some(cmp), the four operators, (cmp == Equal) <=> (==), and independently: valid/valid => lower value is Greater, invalid vs valid => Less. Enums: category and class of v sort <= those of v+1 for all v in 1..7462, strictly where they differ, Invalid after every other variant. Non-trivial = pairs with at least one invalid rank or two valid ranks of the same category; distinct = distinct ordered pairs".into();
    run.assume("the direction of the order among distinct invalid ranks is not prescribed and not asserted; only that cmp is a total order consistent with ==");
    run.assume("ranks are obtained by HandRank::from only (the struct's fields are public; hand-assembled inconsistent ranks are outside the statement)");
    super::regress::replay_dir(run, "C07", check_case)?;
    {
        // class and validity boundaries, and the values around every power of two (table sizes, masks)
        let vals = [0u16, 1, 2, 3, 4, 5, 7, 8, 9, 10, 11, 15, 16, 17, 31, 32, 33, 63, 64, 65, 127, 128, 129, 166, 167, 255, 256, 257, 511, 512, 513, 1023, 1024, 1025, 1599, 1600, 2047, 2048, 2049, 3325, 4095, 4096, 4097, 6145, 7461, 7462, 7463, 7464, 8191, 8192, 8193, 15654, 16383, 16384, 16385, 32767, 32768, 32769, 65534, 65535];
        let singles: Vec<(u16, u16)> = vals.iter().map(|a| (*a, *a)).collect();
        super::common::disturbance_pass(run, &singles, &|p| pair_clauses(p.0, p.1), &|p| ("C07.pair".into(), json!({"a": p.0, "b": p.1}), format!("({},{})", p.0, p.1)))?;
        let items: Vec<(u16, u16)> = vals.iter().flat_map(|a| vals.iter().map(move |b| (*a, *b))).collect();
        super::common::disturbance_pass(run, &items, &|p| pair_clauses(p.0, p.1), &|p| ("C07.pair".into(), json!({"a": p.0, "b": p.1}), format!("({},{})", p.0, p.1)))?;
    }
    let ranks: Vec<HandRank> = (0..=u16::MAX).map(HandRank::from).collect();
    let names: Vec<u8> = ranks.iter().map(|r| r.name as u8).collect();
    // pass 1: derived key
    let key: Vec<u32> = {
        use rayon::prelude::*;
        (0..65536usize).into_par_iter().map(|a| ranks.iter().filter(|rb| **rb < ranks[a]).count() as u32).collect()
    };
    // conversions feeding the comparison must be functions of the value: related pairs (a, b) are
    // converted afresh, a immediately before b, and compared (thorough: every pair, in pass 2)
    let fresh_all = run.tier == crate::engine::Tier::Thorough && !run.is_twin();
    {
        // one thread: a really is the conversion before b
        let bad = (0..65536usize).find_map(|b| {
            for a in crate::engine::u16_partners(b as u16) {
                let ra = HandRank::from(a);
                let rb = HandRank::from(b as u16);
                if ra != ranks[a as usize] || rb != ranks[b] || ra.cmp(&rb) != key[a as usize].cmp(&key[b]) {
                    return Some((a, b as u16));
                }
            }
            None
        });
        run.generator("related ordered pairs, both ranks converted afresh back to back", "exhaustive (histories of length 2)", None, 65536 * 60, 65536 * 60, "a ranges over bit flips, offsets, shifts and truncations of b");
        if let Some((a, b)) = bad {
            let m = pair_clauses(a, b).err().unwrap_or_else(|| format!("from({}) converted right before from({}): a conversion or the comparison gave a different result than in the precomputed table, and the two-call sequence does not reproduce on its own", a, b));
            return run.violation("C07.pair", &format!("({},{})", a, b), json!({"a": a, "b": b}), &m);
        }
    }
    // pass 2
    let acc = par_range::<A>(65536, 256, || A { pairs: 0, nontrivial: 0, fail: None }, |acc, lo, hi| {
        for a in lo as usize..hi as usize {
            let mut bad: Option<usize> = None;
            let r = guard(|| {
                for b in 0..65536usize {
                    let (ra, rb) = if fresh_all {
                        // thorough: both ranks are converted afresh for every pair, a immediately before b
                        (HandRank::from(a as u16), HandRank::from(b as u16))
                    } else {
                        (ranks[a], ranks[b])
                    };
                    if ra != ranks[a] || rb != ranks[b] {
                        return Some(b);
                    }
                    let c = ra.cmp(&rb);
                    let mut ok = c == key[a].cmp(&key[b]);
                    ok &= ra.partial_cmp(&rb) == Some(c);
                    ok &= (ra < rb) == (c == Ordering::Less) && (ra <= rb) == (c != Ordering::Greater) && (ra > rb) == (c == Ordering::Greater) && (ra >= rb) == (c != Ordering::Less);
                    ok &= (c == Ordering::Equal) == (ra == rb);
                    let (va, vb) = (valid(a as u16), valid(b as u16));
                    if va && vb {
                        ok &= c == b.cmp(&a);
                    } else if !va && vb {
                        ok &= c == Ordering::Less;
                    } else if va && !vb {
                        ok &= c == Ordering::Greater;
                    }
                    if !ok {
                        return Some(b);
                    }
                }
                None
            });
            match r {
                Ok(None) => {}
                Ok(Some(b)) => bad = Some(b),
                Err(_) => bad = (0..65536usize).find(|b| pair_clauses(a as u16, *b as u16).is_err()).or(Some(0)),
            }
            acc.pairs += 65536;
            let va = valid(a as u16);
            if !va {
                acc.nontrivial += 65536;
            } else {
                // invalid partners + same-category partners
                acc.nontrivial += (65536 - 7462) as u64;
                acc.nontrivial += (1..=7462usize).filter(|b| names[*b] == names[a]).count() as u64;
            }
            if let Some(b) = bad {
                acc.fail = Some((a as u16, b as u16));
                return false;
            }
        }
        true
    });
    run.generator("all ordered pairs of converted 16-bit values", "exhaustive", Some(1 << 32), acc.pairs, acc.nontrivial, "two passes: derive integer key, then check every pair against it and against the stated direction");
    if let Some((a, b)) = acc.fail {
        let msg = match pair_clauses(a, b) {
            Err(m) => m,
            Ok(()) => format!("from({}) vs from({}): cmp = {:?} contradicts the order of the derived integer keys {} and {} (the relation is not a total order: transitivity fails)", a, b, ranks[a as usize].cmp(&ranks[b as usize]), key[a as usize], key[b as usize]),
        };
        let clause = if pair_clauses(a, b).is_err() { "C07.pair" } else { "C07.key" };
        return run.violation(clause, &format!("({},{})", a, b), json!({"a": a, "b": b}), &msg);
    }
    run.sample(json!({"a": 0, "b": 7463, "cmp": format!("{:?}", ranks[0].cmp(&ranks[7463])), "eq": ranks[0] == ranks[7463]}));
    run.sample(json!({"a": 1, "b": 7462, "cmp": format!("{:?}", ranks[1].cmp(&ranks[7462]))}));
    run.sample(json!({"a": 7463, "b": 1, "cmp": format!("{:?}", ranks[7463].cmp(&ranks[1]))}));
    run.class("pairs: both valid", 7462 * 7462);
    run.class("pairs: exactly one invalid", 2 * 7462 * (65536 - 7462));
    run.class("pairs: both invalid", (65536 - 7462) * (65536 - 7462));
    match enum_clauses() {
        Ok((n, strict)) => run.generator("adjacent values for the category/class enumerations + all variants vs Invalid", "exhaustive", Some(n), n, strict, "non-trivial = adjacent values whose class differs (308 class boundaries)"),
        Err((sig, m)) => {
            return run.violation("C07.enum", &sig, json!({"at": sig}), &m);
        }
    }
    run.exhaustive = true;
    run.exhaustive_note = "all 2^32 ordered pairs of converted values; all adjacent value pairs and all variants for the enumerations".into();
    Ok(())
}

pub fn check_case(clause: &str, case: &Value) -> Result<(), String> {
    if clause.ends_with(".after_disturbance") || clause.ends_with(".concurrent") || clause.ends_with(".concurrent_cold_start") || clause.ends_with(".after_repetition") {
        return super::common::replay_after_disturbance(case, check_case);
    }
    match clause {
        "C07.enum" => enum_clauses().map(|_| ()).map_err(|(_, m)| m),
        "C07.key" => {
            // transitivity witness: recompute keys for a and b and compare
            let a = case["a"].as_u64().ok_or("a")? as u16;
            let b = case["b"].as_u64().ok_or("b")? as u16;
            let ranks: Vec<HandRank> = (0..=u16::MAX).map(HandRank::from).collect();
            let k = |x: u16| ranks.iter().filter(|r| **r < ranks[x as usize]).count();
            let c = ranks[a as usize].cmp(&ranks[b as usize]);
            if c != k(a).cmp(&k(b)) {
                return Err(format!("from({}) vs from({}): cmp = {:?} contradicts the derived integer keys {} and {}", a, b, c, k(a), k(b)));
            }
            pair_clauses(a, b)
        }
        _ => {
            let a = case["a"].as_u64().ok_or("a")? as u16;
            let b = case["b"].as_u64().ok_or("b")? as u16;
            pair_clauses(a, b)
        }
    }
}
