//! C10 — card words follow the documented bit layout; exactly 52 words are cards.

use super::c04::{filter_scan, hamming2};
use crate::engine::{self, guard, hex, PResult, Run};
use crate::model::card;
use ckc_rs::deck::{Deck, POKER_DECK};
use ckc_rs::{CKCNumber, CardNumber, CardRank, CardSuit, PokerCard};
use serde_json::{json, Value};
use strum::IntoEnumIterator;

/// the 52 named constants, keyed by (r, s) as the *names* say
pub fn named_constants() -> Vec<(&'static str, u32, u32, u32)> {
    macro_rules! k {
        ($($name:ident = ($r:expr, $s:expr)),* $(,)?) => { vec![$((stringify!($name), CardNumber::$name, $r, $s)),*] };
    }
    k![
        ACE_SPADES = (12, 3), KING_SPADES = (11, 3), QUEEN_SPADES = (10, 3), JACK_SPADES = (9, 3), TEN_SPADES = (8, 3), NINE_SPADES = (7, 3),
        EIGHT_SPADES = (6, 3), SEVEN_SPADES = (5, 3), SIX_SPADES = (4, 3), FIVE_SPADES = (3, 3), FOUR_SPADES = (2, 3), TREY_SPADES = (1, 3), DEUCE_SPADES = (0, 3),
        ACE_HEARTS = (12, 2), KING_HEARTS = (11, 2), QUEEN_HEARTS = (10, 2), JACK_HEARTS = (9, 2), TEN_HEARTS = (8, 2), NINE_HEARTS = (7, 2),
        EIGHT_HEARTS = (6, 2), SEVEN_HEARTS = (5, 2), SIX_HEARTS = (4, 2), FIVE_HEARTS = (3, 2), FOUR_HEARTS = (2, 2), TREY_HEARTS = (1, 2), DEUCE_HEARTS = (0, 2),
        ACE_DIAMONDS = (12, 1), KING_DIAMONDS = (11, 1), QUEEN_DIAMONDS = (10, 1), JACK_DIAMONDS = (9, 1), TEN_DIAMONDS = (8, 1), NINE_DIAMONDS = (7, 1),
        EIGHT_DIAMONDS = (6, 1), SEVEN_DIAMONDS = (5, 1), SIX_DIAMONDS = (4, 1), FIVE_DIAMONDS = (3, 1), FOUR_DIAMONDS = (2, 1), TREY_DIAMONDS = (1, 1), DEUCE_DIAMONDS = (0, 1),
        ACE_CLUBS = (12, 0), KING_CLUBS = (11, 0), QUEEN_CLUBS = (10, 0), JACK_CLUBS = (9, 0), TEN_CLUBS = (8, 0), NINE_CLUBS = (7, 0),
        EIGHT_CLUBS = (6, 0), SEVEN_CLUBS = (5, 0), SIX_CLUBS = (4, 0), FIVE_CLUBS = (3, 0), FOUR_CLUBS = (2, 0), TREY_CLUBS = (1, 0), DEUCE_CLUBS = (0, 0),
    ]
}

pub fn rank_num(r: CardRank) -> Option<u32> {
    Some(match format!("{:?}", r).as_str() {
        "ACE" => 12,
        "KING" => 11,
        "QUEEN" => 10,
        "JACK" => 9,
        "TEN" => 8,
        "NINE" => 7,
        "EIGHT" => 6,
        "SEVEN" => 5,
        "SIX" => 4,
        "FIVE" => 3,
        "FOUR" => 2,
        "THREE" => 1,
        "TWO" => 0,
        _ => return None,
    })
}

pub fn suit_num(s: CardSuit) -> Option<u32> {
    Some(match format!("{:?}", s).as_str() {
        "SPADES" => 3,
        "HEARTS" => 2,
        "DIAMONDS" => 1,
        "CLUBS" => 0,
        _ => return None,
    })
}

fn construct_clause(rank: CardRank, suit: CardSuit) -> Result<(), String> {
    let got = guard(|| CKCNumber::create(rank, suit)).map_err(|m| format!("create({:?},{:?}) panicked: {}", rank, suit, m))?;
    let want = match (rank_num(rank), suit_num(suit)) {
        (Some(r), Some(s)) => card::word(r, s),
        _ => 0,
    };
    if got != want {
        return Err(format!("CKCNumber::create({:?}, {:?}) = {} ({}), the layout says {} ({})", rank, suit, hex(got), card::render(got), hex(want), card::render(want)));
    }
    // the enum discriminants are part of the documented API (ACE = 14 .. TWO = 2; SPADES = 4 .. CLUBS = 1)
    Ok(())
}

fn accessor_clauses(w: u32) -> Result<(), String> {
    let name = card::render(w);
    let d = card::decode(w);
    let (rb, rf, pr, sb, sf, rc, sc, sl) = match d {
        Some((r, s)) => (1u32 << r, 1u32 << (16 + r), card::PRIMES[r as usize], 1u32 << s, 1u32 << (12 + s), card::RANK_CHARS[r as usize], card::SUIT_GLYPHS[s as usize], card::SUIT_LETTERS[s as usize]),
        None => (0, 0, 0, 0, 0, '_', '_', '_'),
    };
    macro_rules! eq {
        ($what:expr, $got:expr, $want:expr) => {
            let g = guard(|| $got).map_err(|m| format!("{} on {} panicked: {}", $what, name, m))?;
            if g != $want {
                return Err(format!("{} on {} ({}) = {:?}, the documented layout gives {:?}", $what, name, hex(w), g, $want));
            }
        };
    }
    eq!("get_rank_bit", w.get_rank_bit(), rb);
    eq!("get_rank_flag", w.get_rank_flag(), rf);
    eq!("get_rank_prime", w.get_rank_prime(), pr);
    eq!("get_suit_bit", w.get_suit_bit(), sb);
    eq!("get_suit_flag", w.get_suit_flag(), sf);
    eq!("get_rank_char", w.get_rank_char(), rc);
    eq!("get_suit_char", w.get_suit_char(), sc);
    eq!("get_suit_letter", w.get_suit_letter(), sl);
    eq!("is_blank", w.is_blank(), w == 0);
    eq!("as_u32", w.as_u32(), w);
    let want_rank = d.map(|x| x.0);
    let want_suit = d.map(|x| x.1);
    eq!("get_card_rank", rank_num(w.get_card_rank()), want_rank);
    eq!("get_card_suit", suit_num(w.get_card_suit()), want_suit);
    if let Some((_, s)) = d {
        eq!("get_card_suit().binary_signature", w.get_card_suit().binary_signature(), 1u32 << (12 + s));
        // rank number field (bits 8-11) is not exposed by an accessor; it is covered by the word equality clauses
    }
    Ok(())
}

const EXACT_COUNTS: [u64; 6] = [255, 256, 257, 65_535, 65_536, 65_537];
/// codes of the quick exact-count children: 6 counts x 32 bit positions x plus/minus
const EXACT_CODES: usize = 6 * 32 * 2;

fn filter_is_right(w: u32) -> Result<(), String> {
    let want = if card::is_card(w) { w } else { 0 };
    let got = ckc_rs::CardNumber::filter(w);
    let got2 = <u32 as ckc_rs::PokerCard>::filter(w);
    if got != want || got2 != want {
        return Err(format!("CardNumber::filter({}) = {}, PokerCard::filter = {}, expected {}", hex(w), hex(got), hex(got2), hex(want)));
    }
    Ok(())
}

/// Exact-count histories, one fresh process per code: every card is filtered exactly c times as the first
/// thing that is ever done with it, then the word card +- 2^k is filtered (a use counter packed next to a
/// remembered word that carries into, or borrows from, it). Codes from EXACT_CODES on (thorough): one card
/// filtered 2^32 + 64 times, the neighbouring words looked at before each of the last 128 uses.
fn exact_count_family(code: usize) -> (u64, Option<(u32, String)>) {
    let mut calls = 0u64;
    if code >= EXACT_CODES {
        let c = card::DECK[((code - EXACT_CODES) * 7 + 3) % 52];
        let total = (1u64 << 32) + 64;
        for n in 0..total {
            if n + 128 >= total {
                for p in [c.wrapping_add(1), c.wrapping_sub(1), c.wrapping_add(1 << 8), c.wrapping_sub(1 << 8)] {
                    if let Err(m) = filter_is_right(p) {
                        return (n, Some((p, format!("in a fresh process, after {} had been filtered {} times in a row: {}", card::render(c), n, m))));
                    }
                }
            }
            if ckc_rs::CardNumber::filter(std::hint::black_box(c)) != c {
                return (n, Some((c, format!("in a fresh process, use number {} of {}: the filter does not return the card", n + 1, card::render(c)))));
            }
        }
        return (total + 4 * 128, None);
    }
    let c = EXACT_COUNTS[code % 6];
    let k = (code / 6) % 32;
    let minus = code / 192 == 1;
    for x in card::DECK {
        let probe = if minus { x.wrapping_sub(1 << k) } else { x.wrapping_add(1 << k) };
        for _ in 0..c {
            if ckc_rs::CardNumber::filter(std::hint::black_box(x)) != x {
                return (calls, Some((x, format!("in a fresh process: filter({}) does not return the card", hex(x)))));
            }
        }
        calls += c + 1;
        if let Err(m) = filter_is_right(probe) {
            return (calls, Some((probe, format!("in a fresh process, after {} had been filtered {} times in a row: {}", card::render(x), c, m))));
        }
    }
    (calls, None)
}

pub fn run(run: &mut Run) -> PResult {
    run.rule = "all 14 x 5 rank/suit enumeration pairs through CKCNumber::create; the 52 named constants, POKER_DECK and Deck::get against the layout formula prime | rank<<8 | suit bit | rank bit; every accessor on the 52 cards and blank; all 2^32 words through CardNumber::filter and <u32 as PokerCard>::filter. Non-trivial = the non-card words within Hamming distance 2 of a card (the near misses) plus the 52 cards and the 18 blank-member pairs; distinct = distinct words / pairs".into();
    if let Some(code) = run.cold {
        if (3000..5000).contains(&code) {
            match exact_count_family(code - 3000) {
                (calls, None) => println!("FRESHRESULT ok {}", calls),
                (_, Some((w, m))) => println!("FRESHRESULT fail {}", json!({"word": hex(w), "message": m})),
            }
            return Ok(());
        }
    }
    super::regress::replay_dir(run, "C10", check_case)?;
    if !run.is_twin() && run.cold.is_none() {
        // exact call counts need processes in which nothing has been asked before
        let mut codes: Vec<usize> = (0..EXACT_CODES).map(|c| 3000 + c).collect();
        if run.tier == crate::engine::Tier::Thorough {
            codes.extend((0..8).map(|i| 3000 + EXACT_CODES + i));
        }
        let n = codes.len();
        let (ran, calls, bad) = run.fresh_children(&codes, false);
        run.generator("exact-count histories, a fresh process each: a card filtered exactly 2^8-1 .. 2^8+1 / 2^16-1 .. 2^16+1 times (thorough: also 2^32-64 .. 2^32+64, eight cards), then the word that is the card +- a power of two", "call-count soak", None, calls, 0, &format!("{} of {} child processes reported; every card x every bit position x plus/minus", ran, n));
        if let Some((code, v)) = bad {
            let sig = v["word"].as_str().unwrap_or("").to_string();
            return run.violation("C10.after_exact_count", &sig, json!({"word": v["word"], "cold_code": code}), v["message"].as_str().unwrap_or(""));
        }
    }
    {
        let items: Vec<u32> = card::DECK.iter().copied().chain([0u32]).collect();
        super::common::disturbance_pass(run, &items, &|w| accessor_clauses(*w), &|w| ("C10.accessor".into(), json!({"word": hex(*w)}), card::render(*w)))?;
        let pairs: Vec<(CardRank, CardSuit)> = CardRank::iter().flat_map(|r| CardSuit::iter().map(move |s| (r, s))).collect();
        super::common::disturbance_pass(run, &pairs, &|p| construct_clause(p.0, p.1), &|p| ("C10.create".into(), json!({"rank": format!("{:?}", p.0), "suit": format!("{:?}", p.1)}), format!("{:?}/{:?}", p.0, p.1)))?;
    }
    // construction
    let mut n = 0u64;
    let mut blank_pairs = 0u64;
    for r in CardRank::iter() {
        for s in CardSuit::iter() {
            n += 1;
            if rank_num(r).is_none() || suit_num(s).is_none() {
                blank_pairs += 1;
            }
            if let Err(m) = construct_clause(r, s) {
                run.generator("rank x suit enumeration pairs through create", "exhaustive", Some(70), n, n, "");
                return run.violation("C10.create", &format!("{:?}/{:?}", r, s), json!({"rank": format!("{:?}", r), "suit": format!("{:?}", s)}), &m);
            }
        }
    }
    run.generator("rank x suit enumeration pairs through create", "exhaustive", Some(70), n, n, "52 real pairs + 18 pairs with a blank member (must construct blank)");
    run.class("pairs with a blank member", blank_pairs);
    if n != 70 {
        run.violation("C10.create", "enum-size", json!({"pairs": n}), &format!("{} rank/suit pairs instead of 14 x 5", n))?;
    }
    // named constants
    let consts = named_constants();
    for (name, got, r, s) in &consts {
        let want = card::word(*r, *s);
        if *got != want {
            run.generator("52 named constants", "exhaustive", Some(52), 52, 52, "");
            return run.violation("C10.constant", name, json!({"constant": name}), &format!("CardNumber::{} = {} but rank {} suit {} is {} in the documented layout", name, hex(*got), r, s, hex(want)));
        }
    }
    if CardNumber::BLANK != 0 {
        run.violation("C10.constant", "BLANK", json!({"constant": "BLANK"}), "CardNumber::BLANK is not 0")?;
    }
    run.generator("52 named constants", "exhaustive", Some(52), 52, 52, "each constant, looked up by name, equals the layout formula for the rank and suit in its name");
    // deck
    let arr = POKER_DECK.arr();
    for i in 0..52 {
        let g = Deck::get(i);
        if arr[i] != card::DECK[i] || g != card::DECK[i] {
            run.generator("deck words", "exhaustive", Some(52), 52, 52, "");
            return run.violation("C10.deck", &format!("index={}", i), json!({"index": i}), &format!("deck position {} holds {} / Deck::get gives {}, the layout says {}", i, card::render(arr[i]), card::render(g), card::render(card::DECK[i])));
        }
    }
    run.generator("deck words", "exhaustive", Some(52), 52, 52, "POKER_DECK.arr()[i] and Deck::get(i) equal the layout word of deck position i");
    // accessors
    for w in card::DECK.iter().chain([0u32].iter()) {
        if let Err(m) = accessor_clauses(*w) {
            run.generator("accessors on 52 cards + blank", "exhaustive", Some(53), 53, 53, "");
            return run.violation("C10.accessor", &card::render(*w), json!({"word": hex(*w)}), &m);
        }
    }
    run.generator("accessors on 52 cards + blank", "exhaustive", Some(53), 53, 53, "13 accessors each");
    run.sample(json!({"card": "K♦", "word": hex(card::word(11, 1)), "prime": 37, "rank_number": 11, "suit_bit": "0x2000", "rank_bit": "1<<27"}));
    // call-order independence: every ordered pair of inputs back to back
    if !run.is_twin() {
        let pairs: Vec<(CardRank, CardSuit)> = CardRank::iter().flat_map(|r| CardSuit::iter().map(move |s| (r, s))).collect();
        let hit = engine::ordered_pairs(&pairs, &|a| { std::hint::black_box(CKCNumber::create(a.0, a.1)); }, &|b| construct_clause(b.0, b.1));
        run.generator("all ordered pairs of rank/suit pairs through create, back to back", "exhaustive (histories of length 2)", Some(4900), 4900, 4830, "");
        if let Some((a, b, m)) = hit {
            return run.violation("C10.sequence", &format!("create {:?} ; create {:?}", pairs[a], pairs[b]), json!({"calls": [{"create": [format!("{:?}", pairs[a].0), format!("{:?}", pairs[a].1)]}, {"create": [format!("{:?}", pairs[b].0), format!("{:?}", pairs[b].1)]}]}), &format!("after create({:?}, {:?}): {}", pairs[a].0, pairs[a].1, m));
        }
        let mut words: Vec<u32> = card::DECK.to_vec();
        words.push(0);
        for c in card::DECK {
            for m in 1..8u32 {
                words.push(c | (m << 29));
            }
        }
        // marked words read like their card (C20); here only the 53 unmarked words are *checked*, all 417 are predecessors
        let items: Vec<(u32, bool)> = words.iter().map(|w| (*w, *w >> 29 == 0)).collect();
        let hit = engine::ordered_pairs(
            &items,
            &|a| {
                let w = a.0;
                std::hint::black_box((w.get_card_rank(), w.get_card_suit(), w.get_rank_bit(), w.get_rank_prime(), w.get_suit_bit(), w.get_rank_char(), w.get_suit_char(), w.get_suit_letter(), ckc_rs::CardNumber::filter(w)));
            },
            &|b| {
                if !b.1 {
                    return Ok(());
                }
                accessor_clauses(b.0)?;
                let f = ckc_rs::CardNumber::filter(b.0);
                if f != b.0 {
                    return Err(format!("filter({}) = {}", hex(b.0), hex(f)));
                }
                Ok(())
            },
        );
        let n = items.len() as u64;
        run.generator("all ordered pairs of card / blank / marked words through the accessors and the filter, back to back", "exhaustive (histories of length 2)", Some(n * n), n * n, n * n - n, "417 predecessor words x 53 checked words");
        if let Some((a, b, m)) = hit {
            return run.violation("C10.sequence", &format!("{} ; {}", hex(items[a].0), hex(items[b].0)), json!({"calls": [{"accessors": hex(items[a].0)}, {"accessors": hex(items[b].0)}]}), &format!("after the accessors were called on {}: {}", card::render(items[a].0), m));
        }
    }
    super::common::count_soak(run, "filter and accessors on cards and near-miss words", (1 << 30) + (1 << 16), &soak_step)?;
    // filter over all words
    filter_scan(run, "C10.filter")?;
    let near = hamming2().iter().filter(|w| !card::is_card(**w)).count() as u64;
    run.class("non-card words within Hamming distance 2 of a card (all mapped to blank)", near);
    run.extra.insert("near_miss_words".into(), json!(near));
    // distinct_nontrivial for the scan was counted as all non-card words; keep as measured
    run.exhaustive = true;
    run.exhaustive_note = "every rank/suit pair, every constant, every deck slot, every accessor on every card, all 2^32 words through the filter".into();
    Ok(())
}

pub fn check_case(clause: &str, case: &Value) -> Result<(), String> {
    if clause == "C10.after_exact_count" {
        // replayed in a fresh process, like the original
        let code = case["cold_code"].as_u64().unwrap_or(3000) as usize;
        let run = Run::new("C10", crate::engine::Tier::Quick, 0);
        return match run.fresh_children(&[code], false).2 {
            Some((_, v)) => Err(v["message"].as_str().unwrap_or("").to_string()),
            None => Ok(()),
        };
    }
    if clause.ends_with(".soak") {
        return super::common::replay_soak(case, &soak_step);
    }
    if clause.ends_with(".after_disturbance") || clause.ends_with(".concurrent") || clause.ends_with(".concurrent_cold_start") || clause.ends_with(".after_repetition") {
        return super::common::replay_after_disturbance(case, check_case);
    }
    match clause {
        "C10.create" => {
            let (rn, sn) = (case["rank"].as_str().unwrap_or(""), case["suit"].as_str().unwrap_or(""));
            for r in CardRank::iter() {
                for s in CardSuit::iter() {
                    if format!("{:?}", r) == rn && format!("{:?}", s) == sn {
                        return construct_clause(r, s);
                    }
                }
            }
            Err("pair not found (enumeration changed)".into())
        }
        "C10.constant" => {
            let n = case["constant"].as_str().unwrap_or("");
            for (name, got, r, s) in named_constants() {
                if name == n && got != card::word(r, s) {
                    return Err(format!("CardNumber::{} = {} but the layout says {}", name, hex(got), hex(card::word(r, s))));
                }
            }
            if n == "BLANK" && CardNumber::BLANK != 0 {
                return Err("CardNumber::BLANK is not 0".into());
            }
            Ok(())
        }
        "C10.deck" => {
            let i = case["index"].as_u64().ok_or("index")? as usize;
            if POKER_DECK.arr()[i] != card::DECK[i] || Deck::get(i) != card::DECK[i] {
                return Err(format!("deck position {} is not {}", i, card::render(card::DECK[i])));
            }
            Ok(())
        }
        "C10.accessor" => accessor_clauses(engine::parse_word(&case["word"])?),
        "C10.sequence" => {
            for (i, c) in case["calls"].as_array().ok_or("calls")?.iter().enumerate() {
                let r = if let Some(p) = c.get("create") {
                    let (rn, sn) = (p[0].as_str().unwrap_or(""), p[1].as_str().unwrap_or(""));
                    let mut res = Err("pair not found".to_string());
                    for r in CardRank::iter() {
                        for s in CardSuit::iter() {
                            if format!("{:?}", r) == rn && format!("{:?}", s) == sn {
                                res = construct_clause(r, s);
                            }
                        }
                    }
                    res
                } else {
                    let w = engine::parse_word(&c["accessors"])?;
                    if w >> 29 == 0 {
                        accessor_clauses(w)
                    } else {
                        std::hint::black_box((w.get_card_rank(), w.get_card_suit(), w.get_suit_bit(), w.get_rank_bit()));
                        Ok(())
                    }
                };
                r.map_err(|m| format!("call {}: {}", i + 1, m))?;
            }
            Ok(())
        }
        "C10.filter" => super::c04::check_case("C04.recogniser", case),
        _ => Err(format!("unknown clause {}", clause)),
    }
}

/// soak step n: the filter and a few accessors on a card or a near-miss word derived from n
pub fn soak_step(n: u64) -> Result<(), String> {
    let c = card::DECK[(n % 52) as usize];
    let w = match (n / 52) % 8 {
        0 | 1 | 2 | 3 => c,
        4 => c + 1,
        5 => c | (1 << 29),
        6 => c ^ (1 << ((n / 416) % 32)),
        _ => c - 1,
    };
    let want = if card::is_card(w) { w } else { 0 };
    let got = ckc_rs::CardNumber::filter(w);
    if got != want {
        return Err(format!("filter({}) = {}, expected {}", hex(w), hex(got), hex(want)));
    }
    if w == c {
        let (r, s) = card::decode(c).unwrap();
        if c.get_rank_prime() != card::PRIMES[r as usize] || c.get_suit_bit() != 1 << s || c.get_rank_char() != card::RANK_CHARS[r as usize] {
            return Err(format!("accessors on {} read prime {}, suit bit {}, rank char {:?}", card::render(c), c.get_rank_prime(), c.get_suit_bit(), c.get_rank_char()));
        }
    }
    Ok(())
}
