//! C05 — ranking never panics on card-or-blank hands; a five-slot hand with a blank is Invalid.
//!
//! Generators: every multiset of 5, 6 and 7 slots over the 53 symbols {blank, 52 cards} (plus a
//! seeded slot order each), every *ordered* five-slot array (53^5), every u32 key (and structured
//! larger keys) for `Five::find_in_products`. Run under both build profiles: this binary
//! (`checked`: overflow checks + debug assertions) re-executes its `unchecked` twin and merges
//! the result.

use super::common::*;
use crate::engine::enumerate::{multichoose, par_range, par_tuples, Acc};
use crate::engine::{self, factorial, guard, mix2, perm_from_index, PResult, Run, Tier};
use crate::model::{card, poker};
use ckc_rs::cards::five::Five;
use ckc_rs::cards::seven::Seven;
use ckc_rs::cards::six::Six;
use ckc_rs::cards::HandRanker;
use serde_json::{json, Value};

use crate::engine::profile;

#[inline]
fn sym(i: u8) -> u32 {
    if i == 0 {
        0
    } else {
        card::BY_CI[i as usize - 1]
    }
}

/// Everything the property observes about one hand, each call separately guarded.
/// Returns the first failing clause.
fn examine(ws: &[u32]) -> Result<(), (&'static str, String)> {
    let t = poker::tables();
    let has_blank = ws.contains(&0);
    let mut sorted = ws.to_vec();
    sorted.sort_unstable();
    let has_repeat = sorted.windows(2).any(|p| p[0] == p[1] && p[0] != 0) || sorted.iter().filter(|w| **w == 0).count() > 1;
    let clean = !has_blank && !has_repeat;
    let expected: Option<u16> = if clean { Some(poker::best_direct(t, &cis_of(ws).map_err(|e| ("C05.domain", e))?)) } else { None };
    let hand = card::render_hand(ws);
    macro_rules! entries {
        ($ty:ident, $a:expr) => {{
            let a = $a;
            let calls: [(&str, Box<dyn Fn() -> (u16, Option<ckc_rs::hand_rank::HandRank>)>); 5] = [
                ("hand_rank_value", Box::new(move || ($ty::from(a).hand_rank_value(), None))),
                ("hand_rank", Box::new(move || {
                    let r = $ty::from(a).hand_rank();
                    (r.value, Some(r))
                })),
                ("hand_rank_value_and_hand", Box::new(move || ($ty::from(a).hand_rank_value_and_hand().0, None))),
                ("hand_rank_value_validated", Box::new(move || ($ty::from(a).hand_rank_value_validated(), None))),
                ("hand_rank_validated", Box::new(move || {
                    let r = $ty::from(a).hand_rank_validated();
                    (r.value, Some(r))
                })),
            ];
            for (name, f) in calls.iter() {
                let r = guard(|| f());
                let (v, rank) = match r {
                    Ok(x) => x,
                    Err(m) => return Err(("C05.no_panic", format!("{}::{} on [{}] panicked ({} build): {}", stringify!($ty), name, hand, profile(), m))),
                };
                if ws.len() == 5 && has_blank {
                    if v != 0 {
                        return Err(("C05.blank_five_invalid", format!("Five::{} on [{}] (contains a blank) returned the real rank value {}", name, hand, v)));
                    }
                    if let Some(r) = rank {
                        let nm = format!("{:?}", r.name);
                        let cl = format!("{:?}", r.class);
                        if nm != "Invalid" || cl != "Invalid" || !r.is_invalid() {
                            return Err(("C05.blank_five_invalid", format!("Five::{} on [{}] (contains a blank) gave rank {}/{}, not Invalid", name, hand, nm, cl)));
                        }
                    }
                }
                if let Some(e) = expected {
                    if v != e {
                        return Err(("C05.clean_value", format!("{}::{} on [{}] returned {}, the hand's strength ordinal is {}", stringify!($ty), name, hand, v, e)));
                    }
                }
            }
        }};
    }
    match ws.len() {
        5 => entries!(Five, arr::<5>(ws).unwrap()),
        6 => entries!(Six, arr::<6>(ws).unwrap()),
        7 => entries!(Seven, arr::<7>(ws).unwrap()),
        n => return Err(("C05.domain", format!("size {}", n))),
    }
    Ok(())
}

trait Fast<const N: usize> {
    /// true when everything asserted holds (may panic: caller guards)
    fn ok(a: [u32; N], has_blank: bool, expected: Option<u16>) -> bool;
    /// the unvalidated value only (used for the extra seeded slot order)
    fn ok_light(a: [u32; N], has_blank: bool, expected: Option<u16>) -> bool;
}
struct F5;
impl Fast<5> for F5 {
    #[inline(always)]
    fn ok_light(a: [u32; 5], has_blank: bool, expected: Option<u16>) -> bool {
        Self::ok(a, has_blank, expected)
    }
    #[inline(always)]
    fn ok(a: [u32; 5], has_blank: bool, expected: Option<u16>) -> bool {
        let h = Five::from(a);
        let v1 = h.hand_rank_value();
        let r = h.hand_rank();
        let v3 = h.hand_rank_value_and_hand().0;
        let v4 = h.hand_rank_value_validated();
        let r5 = h.hand_rank_validated();
        let mut ok = true;
        if has_blank {
            ok &= v1 == 0 && r.value == 0 && v3 == 0 && v4 == 0 && r5.value == 0;
            ok &= r.is_invalid() && r5.is_invalid();
            ok &= r.name == ckc_rs::hand_rank::HandRankName::Invalid && r.class == ckc_rs::hand_rank::HandRankClass::Invalid;
            ok &= r5.name == ckc_rs::hand_rank::HandRankName::Invalid && r5.class == ckc_rs::hand_rank::HandRankClass::Invalid;
        }
        if let Some(e) = expected {
            ok &= v1 == e && r.value == e && v3 == e && v4 == e && r5.value == e;
        }
        ok
    }
}
struct F6;
impl Fast<6> for F6 {
    #[inline(always)]
    fn ok_light(a: [u32; 6], _b: bool, expected: Option<u16>) -> bool {
        let v = Six::from(a).hand_rank_value();
        match expected {
            Some(e) => v == e,
            None => {
                std::hint::black_box(v);
                true
            }
        }
    }
    #[inline(always)]
    fn ok(a: [u32; 6], _b: bool, expected: Option<u16>) -> bool {
        let h = Six::from(a);
        let v = [h.hand_rank_value(), h.hand_rank().value, h.hand_rank_value_and_hand().0, h.hand_rank_value_validated(), h.hand_rank_validated().value];
        match expected {
            Some(e) => v.iter().all(|x| *x == e),
            None => {
                std::hint::black_box(v);
                true
            }
        }
    }
}
struct F7;
impl Fast<7> for F7 {
    #[inline(always)]
    fn ok_light(a: [u32; 7], _b: bool, expected: Option<u16>) -> bool {
        let v = Seven::from(a).hand_rank_value();
        match expected {
            Some(e) => v == e,
            None => {
                std::hint::black_box(v);
                true
            }
        }
    }
    #[inline(always)]
    fn ok(a: [u32; 7], _b: bool, expected: Option<u16>) -> bool {
        let h = Seven::from(a);
        let v = [h.hand_rank_value(), h.hand_rank().value, h.hand_rank_value_and_hand().0, h.hand_rank_value_validated(), h.hand_rank_validated().value];
        match expected {
            Some(e) => v.iter().all(|x| *x == e),
            None => {
                std::hint::black_box(v);
                true
            }
        }
    }
}

struct A {
    hands: u64,
    nontrivial: u64,
    classes: std::collections::BTreeMap<(u8, bool), u64>,
    fail: Option<(Vec<u32>, &'static str, String)>,
    sample: Option<Vec<u32>>,
}
impl Acc for A {
    fn merge(&mut self, o: Self) {
        self.hands += o.hands;
        self.nontrivial += o.nontrivial;
        for (k, v) in o.classes {
            *self.classes.entry(k).or_insert(0) += v;
        }
        if self.fail.is_none() {
            self.fail = o.fail;
        }
        if self.sample.is_none() {
            self.sample = o.sample;
        }
    }
    fn failed(&self) -> bool {
        self.fail.is_some()
    }
}

fn multisets<const N: usize, F: Fast<N>>(run: &mut Run, stratum: u64) -> PResult {
    let t = poker::tables();
    let seed = run.seed;
    let nfact = factorial(N as u64);
    let acc = par_tuples::<N, A>(
        53,
        false,
        || A { hands: 0, nontrivial: 0, classes: Default::default(), fail: None, sample: None },
        |acc, c| {
            let p = super::multi::pack(c);
            if stratum > 1 && mix2(seed ^ 0xC05, p) % stratum != 0 {
                return true;
            }
            let mut w = [0u32; N];
            for i in 0..N {
                w[i] = sym(c[i]);
            }
            let blanks = c.iter().filter(|x| **x == 0).count() as u8;
            let repeat = (1..N).any(|i| c[i] == c[i - 1]);
            let clean = blanks == 0 && !repeat;
            let expected = if clean {
                let mut ci = [0u8; N];
                for i in 0..N {
                    ci[i] = c[i] - 1;
                }
                Some(poker::best_direct(t, &ci))
            } else {
                None
            };
            let perm = perm_from_index::<N>(mix2(seed ^ 0x0DE5, p) % nfact);
            let wp = engine::apply_perm(&w, &perm);
            let mut wd = w;
            wd.reverse();
            let r = guard(|| {
                if !F::ok(w, blanks > 0, expected) {
                    return Some(w);
                }
                if !F::ok_light(wd, blanks > 0, expected) {
                    return Some(wd);
                }
                if !F::ok_light(wp, blanks > 0, expected) {
                    return Some(wp);
                }
                None
            });
            acc.hands += 1;
            if !clean {
                acc.nontrivial += 1;
            }
            *acc.classes.entry((blanks, repeat)).or_insert(0) += 1;
            let bad = match r {
                Ok(None) => {
                    if acc.sample.is_none() && !clean && p % 1013 == 11 {
                        acc.sample = Some(w.to_vec());
                    }
                    return true;
                }
                Ok(Some(b)) => b,
                Err(_) => {
                    if examine(&w).is_err() {
                        w
                    } else if examine(&wd).is_err() {
                        wd
                    } else {
                        wp
                    }
                }
            };
            match examine(&bad) {
                Err((cl, m)) => acc.fail = Some((bad.to_vec(), cl, m)),
                Ok(()) => panic!("fast and slow paths disagree on {:?}", bad),
            }
            false
        },
    );
    let total = multichoose(53, N as u64);
    run.generator(
        &format!("{}-slot multisets over 52 cards + blank{} (ascending, descending + 1 seeded slot order)", N, if stratum > 1 { format!(", seeded 1-in-{} stratum", stratum) } else { String::new() }),
        if stratum > 1 { "exhaustive-stratum" } else { "exhaustive" },
        Some(total),
        acc.hands,
        acc.nontrivial,
        "cases = multisets; non-trivial = contains a blank or a repeated card",
    );
    for ((b, r), n) in &acc.classes {
        run.class(&format!("{}-slot: {} blanks, repeat={}", N, b, r), *n);
    }
    if let Some(s) = &acc.sample {
        run.sample(json!({"profile": profile(), "hand": card::render_hand(s), "outcome": "all five entry points returned normally"}));
    }
    if let Some((w, cl, m)) = &acc.fail {
        return report(run, w, cl, m);
    }
    Ok(())
}

fn report(run: &mut Run, w: &[u32], clause: &str, msg: &str) -> PResult {
    let mut case = hand_json(w);
    case.as_object_mut().unwrap().insert("profile".into(), json!(profile()));
    let mut s = w.to_vec();
    s.sort_unstable_by(|a, b| b.cmp(a));
    // signature: clause + profile-independent canonical multiset
    run.violation(clause, &card::render_hand(&s), case, msg)
}

struct AO {
    n: u64,
    nontrivial: u64,
    fail: Option<Vec<u32>>,
}
impl Acc for AO {
    fn merge(&mut self, o: Self) {
        self.n += o.n;
        self.nontrivial += o.nontrivial;
        if self.fail.is_none() {
            self.fail = o.fail;
        }
    }
    fn failed(&self) -> bool {
        self.fail.is_some()
    }
}

/// all 53^5 ordered five-slot arrays
fn ordered_fives(run: &mut Run) -> PResult {
    let t = poker::tables();
    let total = 53u64.pow(5);
    let quick = run.tier == Tier::Quick;
    let acc = par_range::<AO>(total, 53 * 53 * 53, || AO { n: 0, nontrivial: 0, fail: None }, |acc, lo, hi| {
        for idx in lo..hi {
            let mut x = idx;
            let mut c = [0u8; 5];
            for i in (0..5).rev() {
                c[i] = (x % 53) as u8;
                x /= 53;
            }
            let w = [sym(c[0]), sym(c[1]), sym(c[2]), sym(c[3]), sym(c[4])];
            let has_blank = c.contains(&0);
            let mut s = c;
            s.sort_unstable();
            let repeat = (1..5).any(|i| s[i] == s[i - 1]);
            let expected = if !has_blank && !repeat { Some(poker::ord5_sorted(t, [s[0] - 1, s[1] - 1, s[2] - 1, s[3] - 1, s[4] - 1])) } else { None };
            if quick && expected.is_some() {
                continue;
            }
            acc.n += 1;
            if has_blank || repeat {
                acc.nontrivial += 1;
            }
            let r = guard(|| F5::ok(w, has_blank, expected));
            if r != Ok(true) {
                acc.fail = Some(w.to_vec());
                return false;
            }
        }
        true
    });
    run.generator(
        if quick { "all ordered five-slot arrays over 52 cards + blank that contain a blank or a repeat" } else { "all ordered five-slot arrays over 52 cards + blank (53^5)" },
        "exhaustive",
        Some(if quick { total - 52 * 51 * 50 * 49 * 48 } else { total }),
        acc.n,
        acc.nontrivial,
        "cases = arrays; non-trivial = contains a blank or a repeated card (quick leaves the 311,875,200 arrays of five distinct cards to C01, which enumerates them all)",
    );
    if let Some(w) = &acc.fail {
        match examine(w) {
            Err((cl, m)) => return report(run, w, cl, &m),
            Ok(()) => panic!("fast and slow paths disagree on {:?}", w),
        }
    }
    Ok(())
}

struct AK {
    n: u64,
    absent: u64,
    fail: Option<u64>,
}
impl Acc for AK {
    fn merge(&mut self, o: Self) {
        self.n += o.n;
        self.absent += o.absent;
        if self.fail.is_none() {
            self.fail = o.fail;
        }
    }
    fn failed(&self) -> bool {
        self.fail.is_some()
    }
}

fn key_examine(key: u64) -> Result<(), String> {
    guard(|| Five::find_in_products(key as usize)).map(|_| ()).map_err(|m| format!("Five::find_in_products({}) panicked ({} build): {}", key, profile(), m))
}

fn keys(run: &mut Run) -> PResult {
    let total: u64 = (1u64 << 32) + (1 << 21);
    let acc = par_range::<AK>(total, 1 << 20, || AK { n: 0, absent: 0, fail: None }, |acc, lo, hi| {
        // fast: one guard per chunk, then locate
        let r = guard(|| {
            let mut s = 0usize;
            for k in lo..hi {
                s = s.wrapping_add(Five::find_in_products(k as usize));
            }
            std::hint::black_box(s);
        });
        acc.n += hi - lo;
        if r.is_err() {
            for k in lo..hi {
                if key_examine(k).is_err() {
                    acc.fail = Some(k);
                    return false;
                }
            }
            panic!("chunk panic not reproducible");
        }
        true
    });
    run.generator(
        "find_in_products: every key 0..2^32 (and 2^21 beyond)",
        "exhaustive",
        Some((1u64 << 32) + (1 << 21)),
        acc.n,
        acc.n.saturating_sub(4888),
        "cases = keys; non-trivial = keys that are not one of the 4,888 table products (the not-found path); the product of five 6-bit fields always fits 32 bits",
    );
    if let Some(k) = acc.fail {
        let m = key_examine(k).err().unwrap_or_default();
        return run.violation("C05.key_no_panic", &format!("key={}", k), json!({"key": k, "profile": profile()}), &m);
    }
    // structured keys beyond 32 bits and around the table's ends
    let mut ks: Vec<u64> = vec![0, 1, 47, 48, 49, u32::MAX as u64, 1 << 32, (1 << 32) + 1, u64::MAX, u64::MAX - 1, 1 << 63, (1 << 63) - 1, 104_553_157, 104_553_156, 104_553_158];
    let mut rng = engine::SplitMix::new(run.seed, 0xC05_4E7);
    for b in 0..64 {
        ks.push(1u64 << b);
        ks.push((1u64 << b).wrapping_sub(1));
        ks.push((1u64 << b).wrapping_add(1));
        for _ in 0..64 {
            ks.push(rng.next() >> (63 - b));
        }
    }
    ks.sort_unstable();
    ks.dedup();
    let n = ks.len() as u64;
    for k in &ks {
        if let Err(m) = key_examine(*k) {
            run.generator("find_in_products: structured 64-bit keys", "structured+seeded", None, n, n, "");
            return run.violation("C05.key_no_panic", &format!("key={}", k), json!({"key": k, "profile": profile()}), &m);
        }
    }
    run.generator("find_in_products: structured 64-bit keys", "structured+seeded", None, n, n, "powers of two +-1, table ends, usize::MAX, seeded keys of every bit length");
    run.sample(json!({"profile": profile(), "keys": [0, 47, 48, u64::MAX], "outcome": "returned normally"}));
    Ok(())
}

/// call sequences over related card-or-blank hands (A B A C B A), every entry point per call
fn sequences(run: &mut Run) -> PResult {
    use proptest::prelude::*;
    let st = engine::RStats::new();
    let cases: u32 = (if run.tier == Tier::Thorough { 400_000 } else { 60_000 }) / if run.is_twin() { 4 } else { 1 };
    // a hand of n slots over the 53 symbols, then two edits: (slot, new symbol or copy of another slot)
    let strat = (5usize..=7, proptest::collection::vec(0u8..53, 7), proptest::collection::vec((0usize..7, prop_oneof![3 => Just(0u8), 3 => 1u8..53, 2 => 100u8..107]), 2));
    let build = |(n, syms, edits): (usize, Vec<u8>, Vec<(usize, u8)>)| -> Vec<Vec<u32>> {
        let a: Vec<u32> = syms[..n].iter().map(|s| sym(*s)).collect();
        let mut hands = vec![a.clone()];
        let mut cur = a;
        for (slot, e) in edits {
            let s = slot % n;
            cur[s] = if e >= 100 { cur[(e as usize - 100) % n] } else { sym(e) };
            hands.push(cur.clone());
        }
        vec![hands[0].clone(), hands[1].clone(), hands[0].clone(), hands[2].clone(), hands[1].clone(), hands[0].clone()]
    };
    let seq_check = |seq: &[Vec<u32>]| -> Result<(), String> {
        let _ = examine(&[card::DECK[0], card::DECK[14], card::DECK[28], card::DECK[42], card::DECK[4]]);
        for (i, h) in seq.iter().enumerate() {
            examine(h).map_err(|(c, m)| format!("call {} of a sequence: {}: {}", i + 1, c, m))?;
        }
        Ok(())
    };
    let res = crate::engine::pt::run(run.seed, 0xC05_5E, cases, &strat, |v| {
        let seq = build(v);
        st.note(seq.iter().fold(7u64, |h, x| engine::mix(h ^ engine::hash_words(x))), true, Some(&format!("size {}", seq[0].len())), || json!({"profile": profile(), "sequence": seq.iter().map(|h| card::render_hand(h)).collect::<Vec<_>>()}));
        seq_check(&seq).map_err(|e| {
            st.freeze();
            e
        })
    });
    st.flush(run, "call sequences over related card-or-blank hands (A B A C B A)", "proptest (histories)", None, "edits: blank a slot, replace a card, copy another slot; every entry point per call");
    if let Err(f) = res {
        let seq = build(f.value);
        let mut cur = seq.clone();
        for n in 1..=seq.len() {
            if seq_check(&seq[..n]).is_err() {
                cur = seq[..n].to_vec();
                break;
            }
        }
        let mut i = 0;
        while cur.len() > 1 && i + 1 < cur.len() {
            let mut cand = cur.clone();
            cand.remove(i);
            if seq_check(&cand).is_err() {
                cur = cand;
            } else {
                i += 1;
            }
        }
        let m = seq_check(&cur).err().unwrap_or_else(|| "not reproducible".into());
        let sig = cur.iter().map(|h| card::render_hand(h)).collect::<Vec<_>>().join(" ; ");
        return run.violation("C05.sequence", &sig, json!({"profile": profile(), "sequence": cur.iter().map(|h| hand_json(h)).collect::<Vec<_>>()}), &m);
    }
    Ok(())
}

fn run_profile(run: &mut Run) -> PResult {
    let thorough = run.tier == Tier::Thorough;
    {
        let t = poker::tables();
        let mut items: Vec<Vec<u32>> = Vec::new();
        for v in [1u16, 10, 11, 166, 167, 1599, 1600, 1609, 2467, 3325, 6185, 7462] {
            let five: Vec<u32> = t.rep[v as usize].iter().map(|c| card::BY_CI[*c as usize]).collect();
            let extras: Vec<u32> = card::BY_CI.iter().copied().filter(|w| !five.contains(w)).take(2).collect();
            for n in 5..=7usize {
                let base: Vec<u32> = five.iter().copied().chain(extras.iter().copied()).take(n).collect();
                items.push(base.clone());
                for s in 0..n {
                    let mut w = base.clone();
                    w[s] = 0;
                    items.push(w.clone());
                    w[(s + 1) % n] = w[(s + 2) % n];
                    items.push(w);
                }
            }
        }
        items.push(vec![0; 5]);
        items.push(vec![0; 6]);
        items.push(vec![0; 7]);
        // extreme prime products: a rank repeated across all slots (largest: five aces, smallest:
        // five deuces), quads plus a repeat; spread through the list so that several threads of the
        // concurrent and cold-start passes meet them early
        let mut extremes: Vec<Vec<u32>> = Vec::new();
        for r in [12u32, 0, 11, 1, 6] {
            let c = |s: u32| card::word(r, s);
            for n in 5..=7usize {
                extremes.push([c(3), c(3), c(2), c(1), c(0), c(2), c(3)][..n].to_vec());
                extremes.push([c(3), c(2), c(1), c(0), card::word((r + 12) % 13, 3), c(3), 0][..n].to_vec());
            }
        }
        let base_len = items.len();
        for (i, e) in extremes.into_iter().enumerate() {
            items.insert((i * 37) % (base_len + i), e);
        }
        disturbance_pass(run, &items, &|ws| examine(ws).map_err(|(c, m)| format!("{}: {}", c, m)), &|ws| {
            let mut c = hand_json(ws);
            c.as_object_mut().unwrap().insert("profile".into(), json!(profile()));
            ("C05.no_panic".into(), c, card::render_hand(ws))
        })?;
    }
    sequences(run)?;
    // the key scan comes first: it also takes the number of product searches made in this process past
    // 2^32 before the hands are ranked (behaviour that depends on a call count)
    keys(run)?;
    multisets::<5, F5>(run, 1)?;
    multisets::<6, F6>(run, 1)?;
    multisets::<7, F7>(run, if thorough { 1 } else { 16 })?;
    ordered_fives(run)?;
    Ok(())
}

pub fn run(run: &mut Run) -> PResult {
    run.rule = "alphabet = 52 model cards + blank, repetition allowed: every multiset of 5 and 6 slots, (quick: seeded 1-in-16 stratum of / thorough: every) multiset of 7 slots, each in ascending, descending and one seeded slot order; every ordered 5-slot array (53^5); every key below 2^32 (+2^21, which also counts the searches of one process past 2^32 before any hand is ranked) and structured 64-bit keys for Five::find_in_products; all five ranking entry points per hand; both build profiles (checked = overflow checks + debug assertions, unchecked = neither). Oracle: normal return everywhere; five slots with a blank => value 0 and Invalid name/class; hands of distinct real cards => model ordinal. Non-trivial = hand contains a blank or a repeated card / key not in the product table; distinct = distinct multisets (arrays, keys)".into();
    run.assume("opt-level 0 is assumed equivalent to the two opt-level-3 profiles executed (ckc-rs has no cfg(debug_assertions) code)");
    run.assume("no value is asserted for six/seven-slot hands containing blanks or for hands with repeated cards: the property only demands a normal return there");
    run.assume("non-termination cannot be decided by testing: a hang is reported as INCONCLUSIVE (exit 2) by the watchdog");
    if run.sub.is_none() {
        super::regress::replay_dir(run, "C05", check_case)?;
    }
    run_profile(run)?;
    if run.sub.is_some() {
        return Ok(());
    }
    run.exhaustive = thorough_all(run.tier);
    run.exhaustive_note = if run.exhaustive { "all multisets of 5/6/7 slots, all 53^5 ordered five-slot arrays, all 2^32 keys, in both build profiles".into() } else { "complete except: seven-slot multisets are a seeded 1-in-16 stratum, ordered five-slot arrays of five distinct cards are left to C01 (thorough closes both)".into() };
    Ok(())
}

fn thorough_all(t: Tier) -> bool {
    t == Tier::Thorough
}

pub fn check_case(clause: &str, case: &Value) -> Result<(), String> {
    if clause.ends_with(".after_disturbance") || clause.ends_with(".concurrent") || clause.ends_with(".concurrent_cold_start") || clause.ends_with(".after_repetition") {
        return replay_after_disturbance(case, check_case);
    }
    match clause {
        "C05.key_no_panic" => key_examine(case["key"].as_u64().ok_or("key missing")?),
        "C05.sequence" => {
            let _ = examine(&[card::DECK[0], card::DECK[14], card::DECK[28], card::DECK[42], card::DECK[4]]);
            for (i, h) in case["sequence"].as_array().ok_or("sequence")?.iter().enumerate() {
                let ws = engine::parse_words(&h["words"])?;
                examine(&ws).map_err(|(c, m)| format!("call {} of the sequence: {}: {}", i + 1, c, m))?;
            }
            Ok(())
        }
        "C05.no_panic" | "C05.blank_five_invalid" | "C05.clean_value" => {
            let ws = engine::parse_words(&case["words"])?;
            for w in &ws {
                if *w != 0 && !card::is_card(*w) {
                    return Err(format!("{} is outside the property's domain (card or blank)", engine::hex(*w)));
                }
            }
            examine(&ws).map_err(|(c, m)| format!("{}: {}", c, m))
        }
        _ => Err(format!("unknown clause {}", clause)),
    }
}

