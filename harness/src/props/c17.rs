//! C17 — starting-hand score equals the Chen formula for every two-card hand.

use super::common::*;
use crate::engine::{self, guard, hex, PResult, Run};
use crate::model::{card, chen};
use ckc_rs::cards::two::Two;
use ckc_rs::cards::HandValidator;
use ckc_rs::{PokerCard, Shifty};
use serde_json::{json, Value};

fn points_clause(w: u32) -> Result<(), String> {
    let (r, _) = card::decode(w).ok_or("not a card")?;
    let got = guard(|| w.get_chen_points()).map_err(|m| format!("get_chen_points panicked: {}", m))?;
    let want = chen::card_half_points(r);
    // exact: the crate's f32 must be the half-point count / 2 (all values are multiples of 0.5)
    if (got * 2.0) as i32 != want || (got * 2.0).fract() != 0.0 {
        return Err(format!("get_chen_points({}) = {}, Chen's high-card points are {}", card::render(w), got, want as f32 / 2.0));
    }
    Ok(())
}

fn pair_clause(a: u32, b: u32) -> Result<(), String> {
    let (r1, s1) = card::decode(a).ok_or("not a card")?;
    let (r2, s2) = card::decode(b).ok_or("not a card")?;
    let hand = format!("{} {}", card::render(a), card::render(b));
    let t = Two::new(a, b);
    let want = chen::chen(r1, s1, r2, s2);
    let got = guard(|| t.chen_formula()).map_err(|m| format!("chen_formula on [{}] panicked: {}", hand, m))? as i32;
    if got != want {
        return Err(format!("chen_formula on [{}] = {}, Chen's formula gives {} (high card {}, pair {}, gap {}, suited {})", hand, got, want, r1.max(r2), r1 == r2, chen::gap(r1, r2), s1 == s2));
    }
    macro_rules! eq {
        ($what:expr, $got:expr, $want:expr) => {
            let g = guard(|| $got).map_err(|m| format!("{} on [{}] panicked: {}", $what, hand, m))?;
            if g != $want {
                return Err(format!("{} on [{}] = {:?}, by definition {:?}", $what, hand, g, $want));
            }
        };
    }
    eq!("get_gap", t.get_gap() as u32, chen::gap(r1, r2));
    eq!("high_card", t.high_card(), a.max(b));
    eq!("is_connector", t.is_connector(), chen::gap(r1, r2) == 0);
    eq!("is_pocket_pair", t.is_pocket_pair(), r1 == r2);
    eq!("is_suited", t.is_suited(), s1 == s2);
    eq!("is_suited_connector", t.is_suited_connector(), s1 == s2 && chen::gap(r1, r2) == 0);
    // the high card by rank: its rank must be the higher rank
    let hc = t.high_card();
    if card::decode(hc).map(|x| x.0) != Some(r1.max(r2)) {
        return Err(format!("high_card on [{}] = {}, whose rank is not the higher rank", hand, card::render(hc)));
    }
    // symmetry and suit-shift invariance
    let sw = guard(|| Two::new(b, a).chen_formula()).map_err(|m| format!("chen_formula panicked: {}", m))? as i32;
    if sw != got {
        return Err(format!("chen_formula depends on slot order: [{}] = {}, swapped = {}", hand, got, sw));
    }
    let mut sh = t;
    for k in 1..=3 {
        sh = sh.shift_suit();
        let v = guard(|| sh.chen_formula()).map_err(|m| format!("chen_formula panicked: {}", m))? as i32;
        if v != got {
            return Err(format!("chen_formula changes under suit shifting: [{}] = {}, after {} shift(s) [{}] = {}", hand, got, k, card::render_hand(&sh.to_arr()), v));
        }
    }
    Ok(())
}

pub fn run(run: &mut Run) -> PResult {
    run.rule = "all 52 x 51 ordered pairs of distinct deck cards through chen_formula and the helpers (get_gap, high_card, is_connector, is_pocket_pair, is_suited, is_suited_connector), against an integer half-point model of Chen's formula; symmetry under slot swap and invariance under 1..3 suit shifts; all 52 cards for get_chen_points. Non-trivial = non-pair hands with gap 1, 2 or 3 and suited gapped hands below the queen (arms no test executes); distinct = distinct ordered pairs".into();
    run.assume("Chen's published formula; the model is integral (half-points), round half up also for negative totals");
    super::regress::replay_dir(run, "C17", check_case)?;
    {
        let hands: Vec<[u32; 2]> = card::DECK.iter().flat_map(|a| card::DECK.iter().filter(move |b| *b != a).map(move |b| [*a, *b])).collect();
        disturbance_pass(run, &hands, &|h| pair_clause(h[0], h[1]), &|h| ("C17.chen".into(), hand_json(h), card::render_hand(h)))?;
    }
    count_soak(run, "Chen scores", (1 << 25) + (1 << 12), &soak_step)?;
    for w in card::DECK {
        if let Err(m) = points_clause(w) {
            run.generator("per-card points", "exhaustive", Some(52), 52, 52, "");
            return run.violation("C17.points", &card::render(w), json!({"word": hex(w)}), &m);
        }
    }
    run.generator("per-card points", "exhaustive", Some(52), 52, 52, "ace 10, king 8, queen 7, jack 6, otherwise half the pip value");
    let mut n = 0u64;
    let mut nt = 0u64;
    let mut classes = std::collections::BTreeMap::<String, u64>::new();
    let mut samples = Vec::new();
    for a in card::DECK {
        for b in card::DECK {
            if a == b {
                continue;
            }
            n += 1;
            let (r1, s1) = card::decode(a).unwrap();
            let (r2, s2) = card::decode(b).unwrap();
            let g = chen::gap(r1, r2);
            let label = if r1 == r2 { "pair".to_string() } else { format!("gap {}{}{}", g.min(4), if g >= 4 { "+" } else { "" }, if s1 == s2 { " suited" } else { "" }) };
            *classes.entry(label).or_insert(0) += 1;
            if r1 != r2 && ((1..=3).contains(&g) || (s1 == s2 && g > 0 && r1.max(r2) < 10)) {
                nt += 1;
                if samples.len() < 3 && n % 401 == 0 {
                    samples.push(json!({"hand": format!("{} {}", card::render(a), card::render(b)), "chen": chen::chen(r1, s1, r2, s2)}));
                }
            }
            if let Err(m) = pair_clause(a, b) {
                run.generator("all ordered pairs of distinct cards", "exhaustive", Some(2652), n, nt, "");
                return run.violation("C17.chen", &format!("{} {}", card::render(a), card::render(b)), hand_json(&[a, b]), &m);
            }
        }
    }
    run.generator("all ordered pairs of distinct cards", "exhaustive", Some(2652), n, nt, "score, six helpers, swap symmetry, three suit shifts each");
    if !run.is_twin() {
        // call-order independence: every ordered pair of two-card hands scored back to back
        let hands: Vec<(u32, u32)> = card::DECK.iter().flat_map(|a| card::DECK.iter().filter(move |b| *b != a).map(move |b| (*a, *b))).collect();
        let hit = engine::ordered_pairs(
            &hands,
            &|h| {
                std::hint::black_box(Two::new(h.0, h.1).chen_formula());
            },
            &|h| {
                let (r1, s1) = card::decode(h.0).unwrap();
                let (r2, s2) = card::decode(h.1).unwrap();
                let t = Two::new(h.0, h.1);
                let got = t.chen_formula() as i32;
                let ok = got == chen::chen(r1, s1, r2, s2) && t.get_gap() as u32 == chen::gap(r1, r2) && t.is_suited() == (s1 == s2) && t.is_pocket_pair() == (r1 == r2) && t.high_card() == h.0.max(h.1);
                if ok {
                    Ok(())
                } else {
                    Err(format!("chen_formula / helpers on [{} {}] gave {} (gap {}, suited {}, pair {}), Chen's formula gives {}", card::render(h.0), card::render(h.1), got, t.get_gap(), t.is_suited(), t.is_pocket_pair(), chen::chen(r1, s1, r2, s2)))
                }
            },
        );
        let np = (hands.len() * hands.len()) as u64;
        run.generator("all ordered pairs of two-card hands scored back to back", "exhaustive (histories of length 2)", Some(np), np, np - hands.len() as u64, "2,652 x 2,652 sequences of two calls");
        if let Some((a, b, m)) = hit {
            let (ha, hb) = (hands[a], hands[b]);
            return run.violation("C17.sequence", &format!("{} {} ; {} {}", card::render(ha.0), card::render(ha.1), card::render(hb.0), card::render(hb.1)), json!({"sequence": [hand_json(&[ha.0, ha.1]), hand_json(&[hb.0, hb.1])]}), &format!("after scoring [{} {}]: {}", card::render(ha.0), card::render(ha.1), m));
        }
    }
    for (k, v) in classes {
        run.class(&k, v);
    }
    for s in samples {
        run.sample(s);
    }
    run.sample(json!({"hand": "7♥ 5♥", "chen": chen::chen(5, 2, 3, 2)}));
    run.exhaustive = true;
    run.exhaustive_note = "all 2,652 ordered pairs of distinct cards and all 52 cards".into();
    Ok(())
}

pub fn check_case(clause: &str, case: &Value) -> Result<(), String> {
    if clause.ends_with(".soak") {
        return replay_soak(case, &soak_step);
    }
    if clause.ends_with(".after_disturbance") || clause.ends_with(".concurrent") || clause.ends_with(".concurrent_cold_start") || clause.ends_with(".after_repetition") {
        return super::common::replay_after_disturbance(case, check_case);
    }
    match clause {
        "C17.points" => points_clause(engine::parse_word(&case["word"])?),
        "C17.sequence" => {
            std::hint::black_box(Two::new(card::DECK[5], card::DECK[30]).chen_formula());
            for (i, h) in case["sequence"].as_array().ok_or("sequence")?.iter().enumerate() {
                let ws = engine::parse_words(&h["words"])?;
                let a = arr::<2>(&ws)?;
                pair_clause(a[0], a[1]).map_err(|m| format!("call {}: {}", i + 1, m))?;
            }
            Ok(())
        }
        _ => {
            let ws = engine::parse_words(&case["words"])?;
            let a = arr::<2>(&ws)?;
            if a[0] == a[1] {
                return Err("the two cards must be distinct".into());
            }
            pair_clause(a[0], a[1])
        }
    }
}

#[allow(dead_code)]
fn _u(t: &Two) -> bool {
    t.is_valid()
}

/// soak step n: the score of the hand (n mod 52, another card)
pub fn soak_step(n: u64) -> Result<(), String> {
    let a = card::DECK[(n % 52) as usize];
    let b = card::DECK[((n % 52 + 1 + (n / 52) % 51) % 52) as usize];
    let (r1, s1) = card::decode(a).unwrap();
    let (r2, s2) = card::decode(b).unwrap();
    let got = Two::new(a, b).chen_formula() as i32;
    if got != chen::chen(r1, s1, r2, s2) {
        return Err(format!("chen_formula on [{} {}] = {}, Chen's formula gives {}", card::render(a), card::render(b), got, chen::chen(r1, s1, r2, s2)));
    }
    Ok(())
}
