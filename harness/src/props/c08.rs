//! C08 — suit shifting is a rank-preserving 4-cycle and never changes a hand's value.

use super::common::*;
use super::multi::{model_best, pack, pos_table, HandN, H6, H7};
use crate::engine::enumerate::{choose, par_tuples, Acc};
use crate::engine::{self, guard, hash_words, mix2, pt, PResult, Run, Tier};
use crate::model::{card, poker};
use ckc_rs::cards::five::Five;
use ckc_rs::cards::four::Four;
use ckc_rs::cards::seven::Seven;
use ckc_rs::cards::six::Six;
use ckc_rs::cards::three::Three;
use ckc_rs::cards::two::Two;
use ckc_rs::cards::HandRanker;
use ckc_rs::Shifty;
use proptest::prelude::*;
use serde_json::{json, Value};

fn card_clauses(w: u32) -> Result<(), String> {
    let s1 = guard(|| w.shift_suit()).map_err(|m| format!("shift_suit({}) panicked: {}", card::render(w), m))?;
    let want = card::shift(w);
    if s1 != want {
        return Err(format!("shift_suit({}) = {}, expected {} (spades->hearts->diamonds->clubs->spades, same rank)", card::render(w), card::render(s1), card::render(want)));
    }
    let s4 = w.shift_suit().shift_suit().shift_suit().shift_suit();
    if s4 != w {
        return Err(format!("four shifts of {} give {}", card::render(w), card::render(s4)));
    }
    Ok(())
}

/// container shift = per-slot shift; `model` true: compare against the model shift (cards/blank only)
fn slotwise(ws: &[u32]) -> Result<(), String> {
    let all_model = ws.iter().all(|w| *w == 0 || card::is_card(*w));
    let want: Vec<u32> = if all_model { ws.iter().map(|w| card::shift(*w)).collect() } else { ws.iter().map(|w| w.shift_suit()).collect() };
    let got: Vec<u32> = match ws.len() {
        2 => guard(|| Two::from(arr::<2>(ws).unwrap()).shift_suit().to_arr().to_vec()),
        3 => guard(|| Three::from(arr::<3>(ws).unwrap()).shift_suit().to_arr().to_vec()),
        4 => guard(|| Four::from(arr::<4>(ws).unwrap()).shift_suit().to_arr().to_vec()),
        5 => guard(|| Five::from(arr::<5>(ws).unwrap()).shift_suit().to_arr().to_vec()),
        6 => guard(|| Six::from(arr::<6>(ws).unwrap()).shift_suit().to_arr().to_vec()),
        7 => guard(|| Seven::from(arr::<7>(ws).unwrap()).shift_suit().to_arr().to_vec()),
        n => return Err(format!("size {}", n)),
    }
    .map_err(|m| format!("shift_suit on [{}] panicked: {}", card::render_hand(ws), m))?;
    if got != want {
        let slot = (0..ws.len()).find(|i| got[*i] != want[*i]).unwrap();
        return Err(format!("shifting the {}-slot hand [{}] gives [{}]; slot {} should be {} (each slot shifted on its own, order kept)", ws.len(), card::render_hand(ws), card::render_hand(&got), slot + 1, card::render(want[slot])));
    }
    Ok(())
}

const RELABELLINGS: usize = 24;

fn relabel(c: u8, perm: &[u8; 4]) -> u32 {
    card::word((c >> 2) as u32, perm[(c & 3) as usize] as u32)
}

/// value invariance of a hand of distinct cards under one relabelling and under the crate's shifts
fn invariance(ws: &[u32], perm: Option<[u8; 4]>) -> Result<(), String> {
    let t = poker::tables();
    let cis = cis_of(ws)?;
    let exp = poker::best_direct(t, &cis);
    let val = |a: &[u32]| -> Result<u16, String> {
        match a.len() {
            5 => guard(|| Five::from(arr::<5>(a).unwrap()).hand_rank_value()),
            6 => guard(|| H6::hrv(arr::<6>(a).unwrap())),
            7 => guard(|| H7::hrv(arr::<7>(a).unwrap())),
            n => Err(format!("size {}", n)),
        }
    };
    let v0 = val(ws)?;
    if v0 != exp {
        return Err(format!("[{}] has value {} but strength ordinal {}", card::render_hand(ws), v0, exp));
    }
    if let Some(p) = perm {
        let rl: Vec<u32> = cis.iter().map(|c| relabel(*c, &p)).collect();
        let v = val(&rl)?;
        if v != v0 {
            return Err(format!("[{}] has value {} but relabelling the suits (clubs,diamonds,hearts,spades -> {:?}) gives [{}] with value {}", card::render_hand(ws), v0, p, card::render_hand(&rl), v));
        }
    }
    // crate's own shift, 1..3 applications
    let mut cur = ws.to_vec();
    for k in 1..=3 {
        cur = match cur.len() {
            5 => guard(|| Five::from(arr::<5>(&cur).unwrap()).shift_suit().to_arr().to_vec()),
            6 => guard(|| Six::from(arr::<6>(&cur).unwrap()).shift_suit().to_arr().to_vec()),
            _ => guard(|| Seven::from(arr::<7>(&cur).unwrap()).shift_suit().to_arr().to_vec()),
        }?;
        let v = val(&cur)?;
        if v != v0 {
            return Err(format!("[{}] has value {} but after {} suit shift(s) [{}] has value {}", card::render_hand(ws), v0, k, card::render_hand(&cur), v));
        }
    }
    Ok(())
}

struct A {
    n: u64,
    evals: u64,
    suits: [u64; 5],
    fail: Option<(Vec<u32>, Option<[u8; 4]>)>,
}
impl Acc for A {
    fn merge(&mut self, o: Self) {
        self.n += o.n;
        self.evals += o.evals;
        for i in 0..5 {
            self.suits[i] += o.suits[i];
        }
        if self.fail.is_none() {
            self.fail = o.fail;
        }
    }
    fn failed(&self) -> bool {
        self.fail.is_some()
    }
}

fn perms4() -> Vec<[u8; 4]> {
    (0..24).map(engine::perm_from_index::<4>).collect()
}

fn hands<const N: usize>(run: &mut Run, stratum: u64) -> PResult {
    let t = poker::tables();
    let rows = pos_table::<N>();
    let p4 = perms4();
    let seed = run.seed;
    let acc = par_tuples::<N, A>(52, true, || A { n: 0, evals: 0, suits: [0; 5], fail: None }, |acc, c| {
        if stratum > 1 && mix2(seed ^ 0xC08, pack(c)) % stratum != 0 {
            return true;
        }
        let exp = if N == 5 { poker::ord5_sorted(t, [c[0], c[1], c[2], c[3], c[4]]) } else { model_best(t, &rows, c).0 };
        let w = words_of_ci(c);
        acc.n += 1;
        let mut smask = 0u8;
        for x in c {
            smask |= 1 << (x & 3);
        }
        acc.suits[smask.count_ones() as usize] += 1;
        let r = guard(|| {
            if N == 5 {
                for (pi, p) in p4.iter().enumerate() {
                    let a = [relabel(c[0], p), relabel(c[1], p), relabel(c[2], p), relabel(c[3], p), relabel(c[4], p)];
                    if Five::from(a).hand_rank_value() != exp {
                        return Some(pi);
                    }
                }
                let mut h = Five::from([w[0], w[1], w[2], w[3], w[4]]);
                for _ in 0..3 {
                    h = h.shift_suit();
                    if h.hand_rank_value() != exp {
                        return Some(24);
                    }
                }
                if h.shift_suit().to_arr()[..] != w[..] {
                    return Some(24);
                }
            } else if N == 6 {
                // ascending and descending slot order, each under the three non-trivial shifts
                for rev in [false, true] {
                    let mut a = [w[0], w[1], w[2], w[3], w[4], w[5]];
                    if rev {
                        a.reverse();
                    }
                    let mut h = Six::from(a);
                    if h.hand_rank_value() != exp {
                        return Some(if rev { 25 } else { 24 });
                    }
                    for _ in 0..3 {
                        h = h.shift_suit();
                        if h.hand_rank_value() != exp {
                            return Some(if rev { 25 } else { 24 });
                        }
                    }
                }
            } else {
                for rev in [false, true] {
                    let mut a = [w[0], w[1], w[2], w[3], w[4], w[5], w[6]];
                    if rev {
                        a.reverse();
                    }
                    let mut h = Seven::from(a);
                    if h.hand_rank_value() != exp {
                        return Some(if rev { 25 } else { 24 });
                    }
                    for _ in 0..3 {
                        h = h.shift_suit();
                        if h.hand_rank_value() != exp {
                            return Some(if rev { 25 } else { 24 });
                        }
                    }
                }
            }
            None
        });
        acc.evals += if N == 5 { 27 } else { 8 };
        match r {
            Ok(None) => true,
            Ok(Some(pi)) if pi < 24 => {
                acc.fail = Some((w.to_vec(), Some(p4[pi])));
                false
            }
            Ok(Some(25)) => {
                let mut wd = w.to_vec();
                wd.reverse();
                acc.fail = Some((wd, None));
                false
            }
            _ => {
                // a shift failure or a panic: find the order that shows it
                let mut wd = w.to_vec();
                wd.reverse();
                let bad = if invariance(&w, None).is_err() { w.to_vec() } else { wd };
                acc.fail = Some((bad, None));
                false
            }
        }
    });
    run.generator(
        &format!("{}-card subsets{}: {}", N, if stratum > 1 { format!(" (seeded 1-in-{} stratum)", stratum) } else { String::new() }, if N == 5 { "all 24 suit relabellings + 1..3 container shifts" } else { "1..3 container shifts, ascending and descending slot order" }),
        if stratum > 1 { "exhaustive-stratum" } else { "exhaustive" },
        Some(choose(52, N as u64)),
        acc.n,
        acc.n,
        "cases = hands; every non-identity relabelling / shift changes the hand, so every hand is non-trivial",
    );
    for i in 1..5 {
        run.class(&format!("{}-card hands holding {} suits", N, i), acc.suits[i]);
    }
    run.extra.insert(format!("evaluations_{}", N), json!(acc.evals));
    if let Some((w, p)) = &acc.fail {
        let m = invariance(w, *p).err().unwrap_or_else(|| panic!("fast and slow paths disagree on {:?}", w));
        let mut case = hand_json(w);
        if let Some(p) = p {
            case.as_object_mut().unwrap().insert("relabelling".into(), json!(p));
        }
        let mut s = w.clone();
        s.sort_unstable_by(|a, b| b.cmp(a));
        return run.violation("C08.invariance", &card::render_hand(&s), case, &m);
    }
    Ok(())
}

/// slots of the slot-wise clause: the statement defines shifting for cards and blank only, so only
/// those are generated (what a container does with other words is not asserted)
fn word_strategy() -> impl Strategy<Value = u32> {
    prop_oneof![
        12 => (0usize..52).prop_map(|i| card::DECK[i]),
        3 => Just(0u32),
    ]
}

pub fn run(run: &mut Run) -> PResult {
    run.rule = "52 cards + blank for the per-card clause; every five-card subset under all 24 relabellings of the four suits (applied by the model) and 1..3 applications of the crate's container shift, every six-card subset and (quick: 1-in-8 stratum / thorough: every) seven-card subset, ascending and descending, under the three non-trivial shifts, values also compared with the model ordinal; proptest hands of 2..7 slots over cards and blank (with repeats) for the slot-wise clause. Non-trivial = relabelled hands (all) / hands of the slot-wise clause containing a blank or a repeat; distinct = distinct subsets / word arrays".into();
    run.assume("shifting is defined for cards and blank only; containers holding other words are not generated");
    super::regress::replay_dir(run, "C08", check_case)?;
    {
        let items: Vec<u32> = card::DECK.iter().copied().chain([0u32]).collect();
        disturbance_pass(run, &items, &|w| card_clauses(*w), &|w| ("C08.card".into(), json!({"word": engine::hex(*w)}), card::render(*w)))?;
        let t = poker::tables();
        let hands: Vec<Vec<u32>> = (1..=7462usize).step_by(7).map(|o| t.rep[o].iter().map(|c| card::BY_CI[*c as usize]).collect()).collect();
        disturbance_pass(run, &hands, &|ws| invariance(ws, Some([1, 2, 3, 0])).and_then(|_| slotwise(ws)), &|ws| ("C08.invariance".into(), hand_json(ws), card::render_hand(ws)))?;
    }
    let mut n = 0;
    for w in card::DECK.iter().chain([0u32].iter()) {
        n += 1;
        if let Err(m) = card_clauses(*w) {
            run.generator("52 cards + blank, per-card shift", "exhaustive", Some(53), n, n, "");
            return run.violation("C08.card", &card::render(*w), json!({"word": engine::hex(*w)}), &m);
        }
    }
    run.generator("52 cards + blank, per-card shift", "exhaustive", Some(53), 53, 53, "shift = next suit, same rank; four shifts = identity; blank stays blank");
    if !run.is_twin() {
        let items: Vec<u32> = card::DECK.iter().copied().chain([0u32]).collect();
        let hit = engine::ordered_pairs(&items, &|a| { std::hint::black_box(a.shift_suit()); }, &|b| card_clauses(*b));
        run.generator("all ordered pairs of cards / blank shifted back to back", "exhaustive (histories of length 2)", Some(53 * 53), 53 * 53, 53 * 52, "");
        if let Some((a, b, m)) = hit {
            return run.violation("C08.sequence", &format!("{} ; {}", card::render(items[a]), card::render(items[b])), json!({"words": [engine::hex(items[a]), engine::hex(items[b])]}), &format!("after shifting {}: {}", card::render(items[a]), m));
        }
    }
    run.sample(json!({"card": "A♠", "shifted": card::render(card::DECK[0].shift_suit()), "four_shifts": card::render(card::DECK[0].shift_suit().shift_suit().shift_suit().shift_suit())}));
    count_soak(run, "suit shifts of cards and of hands", (1 << 26) + (1 << 12), &|n| {
        let c = card::DECK[(n % 52) as usize];
        if c.shift_suit() != card::shift(c) {
            return Err(format!("shift_suit({}) = {}", card::render(c), card::render(c.shift_suit())));
        }
        if n % 16 == 0 {
            let d = card::DECK;
            let w = [c, d[((n / 52) % 52) as usize], 0, d[((n / 7) % 52) as usize], d[((n / 3) % 52) as usize]];
            let got = Five::from(w).shift_suit().to_arr();
            if got != w.map(card::shift) {
                return Err(format!("shifting [{}] gave [{}]", card::render_hand(&w), card::render_hand(&got)));
            }
        }
        Ok(())
    })?;
    hands::<5>(run, 1)?;
    hands::<6>(run, 1)?;
    hands::<7>(run, if run.tier == Tier::Thorough { 1 } else if run.is_twin() { 32 } else { 8 })?;
    // slot-wise
    {
        let st = engine::RStats::new();
        let cases = (if run.tier == Tier::Thorough { 8_000_000 } else { 1_000_000 }) / if run.is_twin() { 4 } else { 1 };
        let make = || (2usize..=7).prop_flat_map(|n| proptest::collection::vec(word_strategy(), n));
        let res = pt::run_sharded(run.seed, 0xC08, cases, &make, &|ws: Vec<u32>| {
            let mut s = ws.clone();
            s.sort_unstable();
            let special = ws.iter().any(|w| !card::is_card(*w)) || s.windows(2).any(|p| p[0] == p[1]);
            st.note(hash_words(&ws), special, Some(&format!("size {}", ws.len())), || json!({"hand": card::render_hand(&ws)}));
            slotwise(&ws).map_err(|e| {
                st.freeze();
                e
            })
        });
        st.flush(run, "proptest hands of 2..7 slots, slot-wise shift", "proptest (8 shards)", None, "slots: cards (4/5) and blank (1/5), repeats allowed");
        if let Err(f) = res {
            let m = slotwise(&f.value).err().unwrap_or_default();
            return run.violation("C08.slotwise", &card::render_hand(&f.value), hand_json(&f.value), &m);
        }
        run.sample(json!({"hand": "A♠ __ 2♣", "shifted": card::render_hand(&Three::from([card::DECK[0], 0, card::DECK[51]]).shift_suit().to_arr())}));
    }
    run.exhaustive = run.tier == Tier::Thorough;
    run.exhaustive_note = "cards, all five-card hands x 24 relabellings, all six-card hands always; seven-card hands completely in the thorough tier; the slot-wise clause over arbitrary words is sampled".into();
    Ok(())
}

pub fn check_case(clause: &str, case: &Value) -> Result<(), String> {
    if clause.ends_with(".soak") {
        return Err("the shift soak is replayed by running ./check C08 quick".into());
    }
    if clause.ends_with(".after_disturbance") || clause.ends_with(".concurrent") || clause.ends_with(".concurrent_cold_start") || clause.ends_with(".after_repetition") {
        return replay_after_disturbance(case, check_case);
    }
    match clause {
        "C08.card" => card_clauses(engine::parse_word(&case["word"])?),
        "C08.sequence" => {
            std::hint::black_box(card::DECK[17].shift_suit());
            let ws = engine::parse_words(&case["words"])?;
            for w in &ws[..ws.len() - 1] {
                std::hint::black_box(w.shift_suit());
            }
            card_clauses(ws[ws.len() - 1])
        }
        "C08.slotwise" => slotwise(&engine::parse_words(&case["words"])?),
        "C08.invariance" => {
            let ws = engine::parse_words(&case["words"])?;
            let p = case.get("relabelling").and_then(|v| v.as_array()).map(|a| {
                let mut p = [0u8; 4];
                for (i, x) in a.iter().take(4).enumerate() {
                    p[i] = x.as_u64().unwrap_or(0) as u8;
                }
                p
            });
            // a replay without a recorded relabelling tries all 24
            match p {
                Some(p) => invariance(&ws, Some(p)),
                None => {
                    for p in perms4() {
                        invariance(&ws, Some(p))?;
                    }
                    Ok(())
                }
            }
        }
        _ => Err(format!("unknown clause {}", clause)),
    }
}

#[allow(dead_code)]
const _R: usize = RELABELLINGS;

