//! C04 — validated ranking yields 0 exactly for non-hands, for any 32-bit words.

use super::common::*;
use crate::engine::enumerate::{par_range, Acc};
use crate::engine::{self, guard, hash_words, hex, pt, PResult, Run, Tier};
use crate::model::{card, poker};
use ckc_rs::cards::five::Five;
use ckc_rs::cards::four::Four;
use ckc_rs::cards::seven::Seven;
use ckc_rs::cards::six::Six;
use ckc_rs::cards::three::Three;
use ckc_rs::cards::two::Two;
use ckc_rs::cards::{HandRanker, HandValidator};
use proptest::prelude::*;
use serde_json::{json, Value};
use std::collections::BTreeMap;

// ---------------------------------------------------------------------------------------------
// the word alphabet

pub fn near_miss_alphabet() -> Vec<u32> {
    let mut v: Vec<u32> = vec![0, u32::MAX];
    for c in card::DECK {
        for b in 0..32 {
            v.push(c ^ (1 << b));
        }
        for m in 1..8u32 {
            v.push(c | (m << 29));
        }
        v.push(c + 1);
        v.push(c - 1);
        v.push(c & !0xF000); // suit-less
        v.push(c & 0xF000); // suit only
        v.push(c & 0x3F); // prime only
        v.push(c & 0x1FFF_0000); // rank bit only
        v.push(c & !0x3F); // prime-less
        v.push(c & !0xF00); // rank-number-less
        v.push(c | 0xF000); // all suits
    }
    for i in 1..=64 {
        v.push(i);
    }
    v.sort_unstable();
    v.dedup();
    v.retain(|w| !card::is_card(*w) || *w == 0);
    v
}

/// all words within Hamming distance <= 2 of a card (cards themselves included)
pub fn hamming2() -> Vec<u32> {
    let mut v = Vec::new();
    for c in card::DECK {
        v.push(c);
        for a in 0..32 {
            v.push(c ^ (1 << a));
            for b in a + 1..32 {
                v.push(c ^ (1 << a) ^ (1 << b));
            }
        }
    }
    v.sort_unstable();
    v.dedup();
    v
}

// ---------------------------------------------------------------------------------------------
// oracle + observation of one hand

#[derive(Debug, Clone, Copy, PartialEq, Eq, PartialOrd, Ord)]
pub enum Kind {
    Valid,
    DuplicateOnly,
    CorruptOnly,
    Both,
}

pub fn model_kind(ws: &[u32]) -> Kind {
    let corrupt = ws.iter().any(|w| !card::is_card(*w));
    let mut s = ws.to_vec();
    s.sort_unstable();
    let dup = s.windows(2).any(|p| p[0] == p[1]);
    match (dup, corrupt) {
        (false, false) => Kind::Valid,
        (true, false) => Kind::DuplicateOnly,
        (false, true) => Kind::CorruptOnly,
        (true, true) => Kind::Both,
    }
}

type Fail = (&'static str, String);

fn validator_clauses<H: HandValidator>(h: &H, ws: &[u32], tname: &str) -> Result<(), Fail> {
    let hand = card::render_hand(ws);
    let corrupt = ws.iter().any(|w| !card::is_card(*w));
    let blank = ws.contains(&0);
    let mut s = ws.to_vec();
    s.sort_unstable();
    let distinct = !s.windows(2).any(|p| p[0] == p[1]);
    let valid = distinct && !corrupt;
    let got = guard(|| h.is_valid()).map_err(|m| ("C04.no_panic", format!("{}::is_valid on [{}] panicked: {}", tname, hand, m)))?;
    if got != valid {
        return Err(("C04.is_valid", format!("{}::is_valid on [{}] is {}, but the hand {} valid (every slot a real card: {}, no two slots equal: {})", tname, hand, got, if valid { "is" } else { "is not" }, !corrupt, distinct)));
    }
    let got = guard(|| h.is_corrupt()).map_err(|m| ("C04.no_panic", format!("{}::is_corrupt on [{}] panicked: {}", tname, hand, m)))?;
    if got != corrupt {
        return Err(("C04.is_corrupt", format!("{}::is_corrupt on [{}] is {}, expected {}", tname, hand, got, corrupt)));
    }
    let got = guard(|| h.contain_blank()).map_err(|m| ("C04.no_panic", format!("{}::contain_blank on [{}] panicked: {}", tname, hand, m)))?;
    if got != blank {
        return Err(("C04.contain_blank", format!("{}::contain_blank on [{}] is {}, expected {}", tname, hand, got, blank)));
    }
    let got = guard(|| h.are_unique()).map_err(|m| ("C04.no_panic", format!("{}::are_unique on [{}] panicked: {}", tname, hand, m)))?;
    if got && !distinct {
        return Err(("C04.are_unique", format!("{}::are_unique on [{}] is true although two slots are equal", tname, hand)));
    }
    // the 0xFFFFFFFF start sentinel of Six/Seven::are_unique makes "distinct => unique" fail for
    // hands holding that word; such a hand is not valid either way, and the property fixes is_valid
    if !got && distinct && !ws.contains(&u32::MAX) {
        return Err(("C04.are_unique", format!("{}::are_unique on [{}] is false although all slots differ", tname, hand)));
    }
    Ok(())
}

fn ranker_clauses<H: HandRanker>(h: &H, ws: &[u32], tname: &str) -> Result<(), Fail> {
    let t = poker::tables();
    let hand = card::render_hand(ws);
    let valid = model_kind(ws) == Kind::Valid;
    let v = guard(|| h.hand_rank_value_validated()).map_err(|m| ("C04.no_panic", format!("{}::hand_rank_value_validated on [{}] panicked: {}", tname, hand, m)))?;
    let r = guard(|| h.hand_rank_validated()).map_err(|m| ("C04.no_panic", format!("{}::hand_rank_validated on [{}] panicked: {}", tname, hand, m)))?;
    if !valid {
        if v != 0 {
            return Err(("C04.zero_iff_invalid", format!("{}::hand_rank_value_validated on [{}] returned {} although the hand is not valid", tname, hand, v)));
        }
        if r.value != 0 {
            return Err(("C04.zero_iff_invalid", format!("{}::hand_rank_validated on [{}] carries value {} although the hand is not valid", tname, hand, r.value)));
        }
        return Ok(());
    }
    if v == 0 {
        return Err(("C04.zero_iff_invalid", format!("{}::hand_rank_value_validated on the valid hand [{}] returned 0", tname, hand)));
    }
    let u = guard(|| h.hand_rank_value()).map_err(|m| ("C04.no_panic", format!("{}::hand_rank_value on the valid hand [{}] panicked: {}", tname, hand, m)))?;
    if u != v {
        return Err(("C04.same_as_unvalidated", format!("{} [{}]: validated value {} differs from unvalidated value {}", tname, hand, v, u)));
    }
    let m = poker::best_direct(t, &cis_of(ws).unwrap());
    if v != m {
        return Err(("C04.same_as_unvalidated", format!("{} [{}]: validated value {} but the hand's strength ordinal is {}", tname, hand, v, m)));
    }
    if r.value != v {
        return Err(("C04.same_as_unvalidated", format!("{} [{}]: hand_rank_validated carries {} but the validated value is {}", tname, hand, r.value, v)));
    }
    Ok(())
}

pub fn check_hand(ws: &[u32]) -> Result<Kind, Fail> {
    match ws.len() {
        2 => validator_clauses(&Two::from(arr::<2>(ws).unwrap()), ws, "Two")?,
        3 => validator_clauses(&Three::from(arr::<3>(ws).unwrap()), ws, "Three")?,
        4 => validator_clauses(&Four::from(arr::<4>(ws).unwrap()), ws, "Four")?,
        5 => {
            let a = arr::<5>(ws).unwrap();
            let h = Five::from(a);
            validator_clauses(&h, ws, "Five")?;
            ranker_clauses(&h, ws, "Five")?;
            let valid = model_kind(ws) == Kind::Valid;
            let v = guard(|| ckc_rs::evaluate::five_cards(a)).map_err(|m| ("C04.no_panic", format!("evaluate::five_cards on [{}] panicked: {}", card::render_hand(ws), m)))?;
            let want = if valid { poker::best_direct(poker::tables(), &cis_of(ws).unwrap()) } else { 0 };
            if v != want {
                return Err(("C04.zero_iff_invalid", format!("evaluate::five_cards on [{}] returned {}, expected {}", card::render_hand(ws), v, want)));
            }
        }
        6 => {
            let h = Six::from(arr::<6>(ws).unwrap());
            validator_clauses(&h, ws, "Six")?;
            ranker_clauses(&h, ws, "Six")?;
        }
        7 => {
            let h = Seven::from(arr::<7>(ws).unwrap());
            validator_clauses(&h, ws, "Seven")?;
            ranker_clauses(&h, ws, "Seven")?;
        }
        n => return Err(("C04.domain", format!("size {}", n))),
    }
    Ok(model_kind(ws))
}

// ---------------------------------------------------------------------------------------------
// generators

struct Stats {
    cases: u64,
    distinct: engine::Distinct,
    nontrivial: u64,
    classes: BTreeMap<String, u64>,
    samples: Vec<Value>,
    frozen: bool,
}
impl Stats {
    fn new() -> Self {
        Stats { cases: 0, distinct: engine::Distinct::new(), nontrivial: 0, classes: BTreeMap::new(), samples: Vec::new(), frozen: false }
    }
    fn note(&mut self, ws: &[u32], k: Kind) {
        if self.frozen {
            return;
        }
        self.cases += 1;
        if self.distinct.insert(hash_words(ws)) && k != Kind::Valid {
            self.nontrivial += 1;
        }
        *self.classes.entry(format!("size {} {:?}", ws.len(), k)).or_insert(0) += 1;
        if self.samples.len() < 3 && k != Kind::Valid && self.cases % 97 == 5 {
            self.samples.push(json!({"hand": card::render_hand(ws), "kind": format!("{:?}", k)}));
        }
    }
    fn flush(&mut self, run: &mut Run, name: &str, kind: &str, domain: Option<u64>, note: &str) {
        run.generator(name, kind, domain, self.cases, self.nontrivial, note);
        for (k, v) in &self.classes {
            run.class(&format!("{}: {}", name, k), *v);
        }
        for s in self.samples.drain(..) {
            run.sample(s);
        }
    }
}

fn report(run: &mut Run, ws: &[u32], f: &Fail) -> PResult {
    run.violation(f.0, &card::render_hand(ws), hand_json(ws), &f.1)
}

/// a base hand of n distinct cards chosen by a seeded generator
fn base_hand(rng: &mut engine::SplitMix, n: usize) -> Vec<u32> {
    let mut pool: Vec<u32> = card::DECK.to_vec();
    let mut v = Vec::new();
    for _ in 0..n {
        let i = rng.below(pool.len() as u64) as usize;
        v.push(pool.swap_remove(i));
    }
    v
}

struct AF {
    n: u64,
    cards: u64,
    fail: Option<u32>,
}
impl Acc for AF {
    fn merge(&mut self, o: Self) {
        self.n += o.n;
        self.cards += o.cards;
        if self.fail.is_none() {
            self.fail = o.fail;
        }
    }
    fn failed(&self) -> bool {
        self.fail.is_some()
    }
}

/// E1: every 32-bit word through the per-slot recogniser
pub fn filter_scan(run: &mut Run, clause: &'static str) -> PResult {
    let acc = par_range::<AF>(1 << 32, 1 << 22, || AF { n: 0, cards: 0, fail: None }, |acc, lo, hi| {
        for w in lo..hi {
            let w = w as u32;
            let want = if card::is_card(w) { w } else { 0 };
            let a = ckc_rs::CardNumber::filter(w);
            let b = <u32 as ckc_rs::PokerCard>::filter(w);
            if a != want || b != want {
                acc.fail = Some(w);
                return false;
            }
            if want != 0 {
                acc.cards += 1;
            }
        }
        acc.n += hi - lo;
        true
    });
    run.generator("every 32-bit word through the card filter", "exhaustive", Some(1 << 32), acc.n, acc.n.saturating_sub(acc.cards), "cases = words; non-trivial = words that are not one of the 52 cards (must map to blank)");
    if let Some(w) = acc.fail {
        let got = ckc_rs::CardNumber::filter(w);
        let want = if card::is_card(w) { w } else { 0 };
        return run.violation(clause, &hex(w), json!({"word": hex(w)}), &format!("CardNumber::filter({}) = {} but the layout says {} ({})", hex(w), hex(got), hex(want), if want == 0 { "not a card: blank" } else { "a card: itself" }));
    }
    if acc.cards != 52 {
        panic!("model recognises {} cards", acc.cards);
    }
    Ok(())
}

#[derive(Debug, Clone)]
enum Defect {
    Dup(u8),
    Alpha(u16),
    Raw(u32),
}

#[derive(Debug, Clone)]
struct Spec {
    n: usize,
    picks: Vec<u8>,
    defects: Vec<(u8, Defect)>,
}

fn build(spec: &Spec, alpha: &[u32]) -> Vec<u32> {
    let mut pool: Vec<u32> = card::DECK.to_vec();
    let mut ws = Vec::new();
    for i in 0..spec.n {
        let idx = (spec.picks[i] as usize * pool.len()) >> 8;
        ws.push(pool.remove(idx));
    }
    for (slot, d) in &spec.defects {
        let s = *slot as usize % spec.n;
        match d {
            Defect::Dup(from) => {
                let f = (s + 1 + *from as usize % (spec.n - 1)) % spec.n;
                ws[s] = ws[f];
            }
            Defect::Alpha(i) => ws[s] = alpha[(*i as usize * alpha.len()) >> 16],
            Defect::Raw(w) => ws[s] = *w,
        }
    }
    ws
}

fn spec_strategy() -> impl Strategy<Value = Spec> {
    let defect = prop_oneof![
        4 => (0u8..6).prop_map(Defect::Dup),
        5 => any::<u16>().prop_map(Defect::Alpha),
        1 => any::<u32>().prop_map(Defect::Raw),
    ];
    let count = prop_oneof![45 => Just(0usize), 25 => Just(1usize), 30 => 2usize..=4];
    (2usize..=7, proptest::collection::vec(any::<u8>(), 7), count).prop_flat_map(move |(n, picks, k)| {
        (Just(n), Just(picks), proptest::collection::vec((0u8..7, defect.clone()), k)).prop_map(|(n, picks, defects)| Spec { n, picks, defects })
    })
}

pub fn run(run: &mut Run) -> PResult {
    run.rule = "hands of 2..7 slots over arbitrary 32-bit words. Generators: (E1) every u32 through the per-slot recogniser and every near-miss word (Hamming distance <= 2 of a card, plus structured fragments and a seeded raw sample) in every slot of an otherwise valid hand of every size; (E2) every ordered slot pair (i,j) with slot j := slot i over seeded base hands; (E3) every arrangement of sizes 2..4 over a 12-symbol alphabet; (E4) boundary-value base hands (first and last ordinal of every category, sizes 2..7, best five first/last) with every defect kind in every slot; (E5) every valid six-card hand and a stratum (thorough: all) of the seven-card hands, ascending and descending: validated = unvalidated; (R) 8-shard proptest hands (45% valid / 25% one defect / 30% several; defects = duplicate of another slot, near-miss word, raw u32); thorough adds a libFuzzer campaign. Oracle: valid <=> every slot is one of the 52 model cards and no two slots equal. Non-trivial = hand with at least one defect; distinct by 64-bit hash of the word array".into();
    run.assume("Six/Seven::are_unique report 'not unique' for otherwise distinct hands holding 0xFFFFFFFF (start sentinel); not asserted, since is_valid is false for such hands either way");
    run.assume("unvalidated ranking is only called on hands the model says are valid (arbitrary words are outside its domain)");
    let thorough = run.tier == Tier::Thorough;
    let alpha = near_miss_alphabet();
    let h2 = hamming2();
    run.extra.insert("alphabet_non_card_words".into(), json!(alpha.len()));
    run.extra.insert("hamming2_words".into(), json!(h2.len()));

    // regression cases first
    super::regress::replay_dir(run, "C04", check_case)?;
    {
        // boundary hands, clean and with one defect in the last slot
        let t = poker::tables();
        let mut items: Vec<Vec<u32>> = Vec::new();
        for v in [1u16, 10, 11, 166, 167, 322, 323, 1599, 1600, 1609, 1610, 2467, 2468, 3325, 3326, 6185, 6186, 7462] {
            let five: Vec<u32> = t.rep[v as usize].iter().map(|c| card::BY_CI[*c as usize]).collect();
            let extras: Vec<u32> = card::BY_CI.iter().copied().filter(|w| !five.contains(w)).take(2).collect();
            for n in 2..=7usize {
                let base: Vec<u32> = five.iter().copied().chain(extras.iter().copied()).take(n).collect();
                items.push(base.clone());
                for b in [0u32, u32::MAX, base[0] | card::PAIR, base[0]] {
                    let mut w = base.clone();
                    w[n - 1] = b;
                    items.push(w);
                }
            }
        }
        disturbance_pass(run, &items, &|ws| check_hand(ws).map(|_| ()).map_err(|f| format!("{}: {}", f.0, f.1)), &|ws| ("C04.is_valid".into(), hand_json(ws), card::render_hand(ws)))?;
    }

    // E1
    filter_scan(run, "C04.recogniser")?;

    // E1b: near-miss word in every slot of an otherwise valid hand
    {
        let mut st = Stats::new();
        let mut rng = engine::SplitMix::new(run.seed, 0xC04_E1B);
        let raw_n = if thorough { 1 << 22 } else { 1 << 18 };
        let mut words: Vec<u32> = h2.clone();
        words.extend(alpha.iter());
        for _ in 0..raw_n {
            words.push(rng.next() as u32);
        }
        for (wi, w) in words.iter().enumerate() {
            for n in 2..=7usize {
                // one base hand per (word, size); the word is put into every slot in turn
                let base = base_hand(&mut rng, n);
                let slots: Vec<usize> = if wi < h2.len() + alpha.len() { (0..n).collect() } else { vec![rng.below(n as u64) as usize] };
                for s in slots {
                    let mut ws = base.clone();
                    ws[s] = *w;
                    match check_hand(&ws) {
                        Ok(k) => st.note(&ws, k),
                        Err(f) => {
                            st.flush(run, "near-miss / raw word placed in a slot of a valid hand", "structured+seeded", None, "");
                            return report(run, &ws, &f);
                        }
                    }
                }
            }
        }
        st.flush(run, "near-miss / raw word placed in a slot of a valid hand", "structured+seeded", None, "all words within Hamming distance 2 of a card and all alphabet words in every slot of every size; seeded raw words in one seeded slot of every size");
    }

    // E2: duplicate placement
    {
        let mut st = Stats::new();
        let mut rng = engine::SplitMix::new(run.seed, 0xC04_E2);
        let bases = if thorough { 2000 } else { 300 };
        for n in 2..=7usize {
            for _ in 0..bases {
                let base = base_hand(&mut rng, n);
                for i in 0..n {
                    for j in 0..n {
                        if i == j {
                            continue;
                        }
                        let mut ws = base.clone();
                        ws[j] = ws[i];
                        match check_hand(&ws) {
                            Ok(k) => {
                                st.note(&ws, k);
                                *st.classes.entry(format!("size {} duplicate pair ({},{})", n, i.min(j), i.max(j))).or_insert(0) += 1;
                            }
                            Err(f) => {
                                st.flush(run, "one duplicated slot pair", "exhaustive over slot pairs x seeded base hands", None, "");
                                return report(run, &ws, &f);
                            }
                        }
                    }
                }
            }
        }
        st.flush(run, "one duplicated slot pair", "exhaustive over slot pairs x seeded base hands", None, "every ordered slot pair (i,j), slot j := slot i, for every size 2..7");
    }

    // E3: all arrangements of sizes 2..4 over a 12-symbol alphabet
    {
        let mut st = Stats::new();
        let a = card::DECK;
        let sub: [u32; 12] = [a[0], a[1], a[13], a[51], a[25], 0, u32::MAX, a[0] | card::PAIR, a[0] ^ 1, a[51] ^ 0x1000, 1, a[12] & !0xF000];
        for n in 2..=4usize {
            let total = 12usize.pow(n as u32);
            for idx in 0..total {
                let mut x = idx;
                let mut ws = Vec::with_capacity(n);
                for _ in 0..n {
                    ws.push(sub[x % 12]);
                    x /= 12;
                }
                match check_hand(&ws) {
                    Ok(k) => st.note(&ws, k),
                    Err(f) => {
                        st.flush(run, "all arrangements of sizes 2..4 over 12 symbols", "exhaustive", None, "");
                        return report(run, &ws, &f);
                    }
                }
            }
        }
        st.flush(run, "all arrangements of sizes 2..4 over 12 symbols", "exhaustive", Some(144 + 1728 + 20736), "5 cards, blank, 0xFFFFFFFF, a flagged card, two one-bit corruptions, 1, a suit-less card");
    }

    // E4: boundary-value base hands (first and last ordinal of every category) with every kind of
    // defect in every slot, best five first and best five last
    {
        let mut st = Stats::new();
        let t = poker::tables();
        let bounds: [u16; 20] = [1, 2, 9, 10, 11, 166, 167, 322, 323, 1599, 1600, 1609, 1610, 2467, 2468, 3325, 3326, 6185, 6186, 7462];
        for v in bounds {
            let five: Vec<u32> = t.rep[v as usize].iter().map(|c| card::BY_CI[*c as usize]).collect();
            let extras: Vec<u32> = card::BY_CI.iter().copied().filter(|w| !five.contains(w)).take(2).collect();
            for n in 2..=7usize {
                let mut base: Vec<u32> = five.iter().copied().chain(extras.iter().copied()).take(n).collect();
                for arrangement in 0..2 {
                    if arrangement == 1 {
                        base.reverse();
                    }
                    // the clean base itself
                    match check_hand(&base) {
                        Ok(k) => st.note(&base, k),
                        Err(f) => {
                            st.flush(run, "boundary-value base hands x defect x slot", "structured-exhaustive", None, "");
                            return report(run, &base, &f);
                        }
                    }
                    for s in 0..n {
                        let mut bad: Vec<u32> = vec![0, u32::MAX, base[s] | card::PAIR, base[s] | card::QUADS, base[s] ^ 1, base[s] ^ 0x1000, base[s] & !0xF000];
                        for j in 0..n {
                            if j != s {
                                bad.push(base[j]); // duplicate of another slot
                            }
                        }
                        for b in bad {
                            let mut ws = base.clone();
                            ws[s] = b;
                            match check_hand(&ws) {
                                Ok(k) => st.note(&ws, k),
                                Err(f) => {
                                    st.flush(run, "boundary-value base hands x defect x slot", "structured-exhaustive", None, "");
                                    return report(run, &ws, &f);
                                }
                            }
                        }
                    }
                }
            }
        }
        st.flush(run, "boundary-value base hands x defect x slot", "structured-exhaustive", None, "bases = a hand at the first and last ordinal of each of the 9 categories (royal flush, steel wheel, ... 7-5-4-3-2), sizes 2..7, best five first / last; defects = blank, 0xFFFFFFFF, flagged, bit flips, suit-less, duplicate of every other slot; in every slot");
    }

    // E5: every valid six-card hand (and a stratum of the seven-card hands), ascending and
    // descending: validated value = unvalidated value, non-zero (no model needed; C02 ties both to the model)
    {
        use crate::engine::enumerate::{choose, par_tuples, Acc};
        struct AV {
            n: u64,
            fail: Option<Vec<u32>>,
        }
        impl Acc for AV {
            fn merge(&mut self, o: Self) {
                self.n += o.n;
                if self.fail.is_none() {
                    self.fail = o.fail;
                }
            }
            fn failed(&self) -> bool {
                self.fail.is_some()
            }
        }
        let seed = run.seed;
        let a6 = par_tuples::<6, AV>(52, true, || AV { n: 0, fail: None }, |acc, c| {
            let w = words_of_ci(c);
            let mut wd = w;
            wd.reverse();
            acc.n += 1;
            for a in [w, wd] {
                let ok = guard(|| {
                    let h = Six::from(a);
                    let v = h.hand_rank_value_validated();
                    v != 0 && v == h.hand_rank_value() && h.hand_rank_validated().value == v && h.is_valid()
                });
                if ok != Ok(true) {
                    acc.fail = Some(a.to_vec());
                    return false;
                }
            }
            true
        });
        run.generator("all valid six-card hands, ascending + descending: validated = unvalidated", "exhaustive", Some(choose(52, 6)), a6.n, 0, "trivial by the rule (no defect); closes the 'otherwise returns the same value' clause over all six-card hands");
        if let Some(ws) = &a6.fail {
            let f = check_hand(ws).err().unwrap_or(("C04.same_as_unvalidated", "validated and unvalidated ranking disagree".into()));
            return report(run, ws, &f);
        }
        let stratum: u64 = if thorough { 1 } else { 16 };
        let a7 = par_tuples::<7, AV>(52, true, || AV { n: 0, fail: None }, |acc, c| {
            if stratum > 1 && engine::mix2(seed ^ 0xC047, super::multi::pack(c)) % stratum != 0 {
                return true;
            }
            let w = words_of_ci(c);
            let mut wd = w;
            wd.reverse();
            acc.n += 1;
            for a in [w, wd] {
                let ok = guard(|| {
                    let h = Seven::from(a);
                    let v = h.hand_rank_value_validated();
                    v != 0 && v == h.hand_rank_value() && h.hand_rank_validated().value == v && h.is_valid()
                });
                if ok != Ok(true) {
                    acc.fail = Some(a.to_vec());
                    return false;
                }
            }
            true
        });
        run.generator(if thorough { "all valid seven-card hands, ascending + descending: validated = unvalidated" } else { "valid seven-card hands (seeded 1-in-16 stratum), ascending + descending: validated = unvalidated" }, if thorough { "exhaustive" } else { "exhaustive-stratum" }, Some(choose(52, 7)), a7.n, 0, "trivial by the rule (no defect)");
        if let Some(ws) = &a7.fail {
            let f = check_hand(ws).err().unwrap_or(("C04.same_as_unvalidated", "validated and unvalidated ranking disagree".into()));
            return report(run, ws, &f);
        }
    }

    // call sequences: a hand, a variant with a defect, the hand again, ... every observation per call
    {
        let st = engine::RStats::new();
        let cases: u32 = (if thorough { 1_000_000 } else { 150_000 }) / if run.is_twin() { 4 } else { 1 };
        let strat = (spec_strategy(), spec_strategy(), any::<bool>());
        let build = |(s1, s2, share): (Spec, Spec, bool)| -> Vec<Vec<u32>> {
            let a = build(&Spec { n: s1.n, picks: s1.picks.clone(), defects: vec![] }, &alpha);
            let b = build(&s1, &alpha);
            // c: either an unrelated hand or the same base with other defects
            let c = if share { build(&Spec { n: s1.n, picks: s1.picks.clone(), defects: s2.defects.clone() }, &alpha) } else { build(&s2, &alpha) };
            vec![a.clone(), b.clone(), a.clone(), c, b, a]
        };
        let seq_check = |seq: &[Vec<u32>]| -> Result<(), String> {
            let _ = check_hand(&[card::DECK[0], card::DECK[14], card::DECK[28], card::DECK[42], card::DECK[4]]);
            for (i, h) in seq.iter().enumerate() {
                check_hand(h).map_err(|f| format!("call {} of a sequence: {}: {}", i + 1, f.0, f.1))?;
            }
            Ok(())
        };
        let res = pt::run(run.seed, 0xC04_5E, cases, &strat, |v| {
            let seq = build(v);
            st.note(seq.iter().fold(3u64, |h, x| engine::mix(h ^ hash_words(x))), true, Some(&format!("size {}", seq[0].len())), || json!({"sequence": seq.iter().map(|h| card::render_hand(h)).collect::<Vec<_>>()}));
            seq_check(&seq).map_err(|e| {
                st.freeze();
                e
            })
        });
        st.flush(run, "call sequences over related hands (valid, with defects, valid again)", "proptest (histories)", None, "A = valid base, B = A with defects, C = other defects or another hand; order A B A C B A");
        if let Err(f) = res {
            let seq = build(f.value);
            let mut cur = seq.clone();
            for n in 1..=seq.len() {
                if seq_check(&seq[..n]).is_err() {
                    cur = seq[..n].to_vec();
                    break;
                }
            }
            let mut i = 0;
            while cur.len() > 1 && i + 1 < cur.len() {
                let mut cand = cur.clone();
                cand.remove(i);
                if seq_check(&cand).is_err() {
                    cur = cand;
                } else {
                    i += 1;
                }
            }
            let m = seq_check(&cur).err().unwrap_or_else(|| "not reproducible".into());
            let sig = cur.iter().map(|h| card::render_hand(h)).collect::<Vec<_>>().join(" ; ");
            return run.violation("C04.sequence", &sig, json!({"sequence": cur.iter().map(|h| hand_json(h)).collect::<Vec<_>>()}), &m);
        }
    }

    // R: proptest
    {
        let st = engine::RStats::new();
        let cases: u32 = (if thorough { 16_000_000 } else { 2_000_000 }) / if run.is_twin() { 4 } else { 1 };
        let res = pt::run_sharded(run.seed, 0xC04, cases, &spec_strategy, &|spec: Spec| {
            let ws = build(&spec, &alpha);
            match check_hand(&ws) {
                Ok(k) => {
                    st.note(hash_words(&ws), k != Kind::Valid, Some(&format!("size {} {:?}", ws.len(), k)), || json!({"hand": card::render_hand(&ws), "kind": format!("{:?}", k)}));
                    Ok(())
                }
                Err(f) => {
                    st.freeze();
                    Err(format!("{}: {}", f.0, f.1))
                }
            }
        });
        st.flush(run, "proptest hands of 2..7 arbitrary words", "proptest (8 shards)", None, "45% valid / 25% one defect / 30% 2..4 defects");
        if let Err(f) = res {
            let ws = build(&f.value, &alpha);
            let e = check_hand(&ws).err().expect("shrunk case must still fail");
            return report(run, &ws, &e);
        }
    }

    if thorough {
        super::fuzz::campaign(run, "c04_words", 3_000_000)?;
    }
    run.exhaustive = false;
    run.exhaustive_note = "the per-slot recogniser is enumerated over all 2^32 words; whole hands (an open domain, 2^32^N) are sampled with structure".into();
    Ok(())
}

pub fn check_case(clause: &str, case: &Value) -> Result<(), String> {
    if clause.ends_with(".after_disturbance") || clause.ends_with(".concurrent") || clause.ends_with(".concurrent_cold_start") || clause.ends_with(".after_repetition") {
        return replay_after_disturbance(case, check_case);
    }
    if clause == "C04.recogniser" {
        let w = engine::parse_word(&case["word"])?;
        let want = if card::is_card(w) { w } else { 0 };
        let got = ckc_rs::CardNumber::filter(w);
        let got2 = <u32 as ckc_rs::PokerCard>::filter(w);
        if got != want || got2 != want {
            return Err(format!("filter({}) = {} / {}, the layout says {}", hex(w), hex(got), hex(got2), hex(want)));
        }
        return Ok(());
    }
    if clause == "C04.sequence" {
        let _ = check_hand(&[card::DECK[0], card::DECK[14], card::DECK[28], card::DECK[42], card::DECK[4]]);
        for (i, h) in case["sequence"].as_array().ok_or("sequence")?.iter().enumerate() {
            let ws = engine::parse_words(&h["words"])?;
            check_hand(&ws).map_err(|f| format!("call {} of the sequence: {}: {}", i + 1, f.0, f.1))?;
        }
        return Ok(());
    }
    let ws = engine::parse_words(&case["words"])?;
    check_hand(&ws).map(|_| ()).map_err(|f| format!("{}: {}", f.0, f.1))
}

/// entry used by the fuzz target: bytes -> hand -> oracle. Returns Err(description) on violation.
pub fn check_bytes(data: &[u8]) -> Result<(), String> {
    if data.is_empty() {
        return Ok(());
    }
    let alpha = ALPHA.with(|a| a.clone());
    let n = 2 + (data[0] % 6) as usize;
    let mut ws = Vec::with_capacity(n);
    let mut i = 1;
    for _ in 0..n {
        if i >= data.len() {
            break;
        }
        let tag = data[i];
        i += 1;
        match tag % 8 {
            0..=4 => {
                // a card by deck position
                let b = data.get(i).copied().unwrap_or(0);
                i += 1;
                ws.push(card::DECK[b as usize % 52]);
            }
            5 => {
                let b = u16::from_le_bytes([data.get(i).copied().unwrap_or(0), data.get(i + 1).copied().unwrap_or(0)]);
                i += 2;
                ws.push(alpha[b as usize % alpha.len()]);
            }
            6 => {
                // copy of an earlier slot
                let b = data.get(i).copied().unwrap_or(0);
                i += 1;
                if ws.is_empty() {
                    ws.push(0);
                } else {
                    let w = ws[b as usize % ws.len()];
                    ws.push(w);
                }
            }
            _ => {
                let mut b = [0u8; 4];
                for k in 0..4 {
                    b[k] = data.get(i + k).copied().unwrap_or(0);
                }
                i += 4;
                ws.push(u32::from_le_bytes(b));
            }
        }
    }
    if ws.len() < 2 {
        return Ok(());
    }
    check_hand(&ws).map(|_| ()).map_err(|f| format!("{}: {} words={:?}", f.0, f.1, ws.iter().map(|w| hex(*w)).collect::<Vec<_>>()))
}

thread_local! {
    static ALPHA: std::rc::Rc<Vec<u32>> = std::rc::Rc::new(near_miss_alphabet());
}

/// decode fuzz bytes to the hand (for turning an artifact into a replay case)
pub fn decode_bytes(data: &[u8]) -> Option<Vec<u32>> {
    match check_bytes(data) {
        Ok(()) => None,
        Err(m) => {
            let i = m.find("words=[")?;
            let list = &m[i + 7..m.len() - 1];
            Some(list.split(", ").filter_map(|s| u32::from_str_radix(s.trim_matches('"').trim_start_matches("0x"), 16).ok()).collect())
        }
    }
}
