//! C19 — hand containers store and return exactly the words put into them.

use crate::engine::{self, guard, hex, mix, pt, PResult, Run, Tier};
use crate::model::card;
use ckc_rs::cards::five::Five;
use ckc_rs::cards::four::Four;
use ckc_rs::cards::seven::Seven;
use ckc_rs::cards::six::Six;
use ckc_rs::cards::three::Three;
use ckc_rs::cards::two::Two;
use ckc_rs::cards::{HandValidator, Permutator};
use proptest::prelude::*;
use serde_json::{json, Value};

#[derive(Clone, Copy, Debug)]
enum C {
    Two(Two),
    Three(Three),
    Four(Four),
    Five(Five),
    Six(Six),
    Seven(Seven),
}

fn a<const N: usize>(ws: &[u32]) -> [u32; N] {
    let mut x = [0u32; N];
    x.copy_from_slice(&ws[..N]);
    x
}

impl C {
    fn from_arr(ws: &[u32]) -> C {
        match ws.len() {
            2 => C::Two(Two::from(a::<2>(ws))),
            3 => C::Three(Three::from(a::<3>(ws))),
            4 => C::Four(Four::from(a::<4>(ws))),
            5 => C::Five(Five::from(a::<5>(ws))),
            6 => C::Six(Six::from(a::<6>(ws))),
            _ => C::Seven(Seven::from(a::<7>(ws))),
        }
    }
    /// the size's other constructors: slot constructor / from parts
    fn from_parts(ws: &[u32], variant: u8) -> C {
        match ws.len() {
            2 => {
                if variant % 2 == 0 {
                    C::Two(Two::new(ws[0], ws[1]))
                } else {
                    C::Two(Two::from(&a::<2>(ws)))
                }
            }
            3 => C::Three(Three(a::<3>(ws))),
            4 => C::Four(Four::from(a::<4>(ws))),
            5 => C::Five(Five::new(ws[0], ws[1], ws[2], ws[3], ws[4])),
            6 => C::Six(Six::from_1_and_2_and_3(ws[0], Two::new(ws[1], ws[2]), Three([ws[3], ws[4], ws[5]]))),
            _ => C::Seven(Seven::new(Two::new(ws[0], ws[1]), Five::new(ws[2], ws[3], ws[4], ws[5], ws[6]))),
        }
    }
    fn set(&mut self, slot: usize, w: u32) {
        macro_rules! s {
            ($h:expr, $($i:expr => $f:ident),*) => { match slot { $($i => $h.$f(w),)* _ => {} } };
        }
        match self {
            C::Two(h) => s!(h, 0 => set_first, 1 => set_second),
            C::Three(h) => s!(h, 0 => set_first, 1 => set_second, 2 => set_third),
            C::Four(h) => s!(h, 0 => set_first, 1 => set_second, 2 => set_third, 3 => set_forth),
            C::Five(h) => s!(h, 0 => set_first, 1 => set_second, 2 => set_third, 3 => set_forth, 4 => set_fifth),
            C::Six(h) => s!(h, 0 => set_first, 1 => set_second, 2 => set_third, 3 => set_forth, 4 => set_fifth, 5 => set_sixth),
            C::Seven(h) => s!(h, 0 => set_first, 1 => set_second, 2 => set_third, 3 => set_forth, 4 => set_fifth, 5 => set_sixth, 6 => set_seventh),
        }
    }
    /// (by accessor, by to_arr, by iter, equal to From<array of the model>)
    fn read(&self, model: &[u32]) -> (Vec<u32>, Vec<u32>, Vec<u32>, bool) {
        match self {
            C::Two(h) => (vec![h.first(), h.second()], h.to_arr().to_vec(), h.iter().copied().collect(), *h == Two::from(a::<2>(model))),
            C::Three(h) => (vec![h.first(), h.second(), h.third()], h.to_arr().to_vec(), h.iter().copied().collect(), *h == Three::from(a::<3>(model)) && h.0 == a::<3>(model)),
            C::Four(h) => (vec![h.first(), h.second(), h.third(), h.forth()], h.to_arr().to_vec(), h.iter().copied().collect(), *h == Four::from(a::<4>(model))),
            C::Five(h) => (vec![h.first(), h.second(), h.third(), h.forth(), h.fifth()], h.to_arr().to_vec(), h.iter().copied().collect(), *h == Five::from(a::<5>(model))),
            C::Six(h) => (vec![h.first(), h.second(), h.third(), h.forth(), h.fifth(), h.sixth()], h.to_arr().to_vec(), h.iter().copied().collect(), *h == Six::from(a::<6>(model))),
            C::Seven(h) => (vec![h.first(), h.second(), h.third(), h.forth(), h.fifth(), h.sixth(), h.seventh()], h.to_arr().to_vec(), h.iter().copied().collect(), *h == Seven::from(a::<7>(model))),
        }
    }
    fn select(&self, p: [u8; 5]) -> Option<[u32; 5]> {
        match self {
            C::Six(h) => Some(h.five_from_permutation(p).to_arr()),
            C::Seven(h) => Some(h.five_from_permutation(p).to_arr()),
            _ => None,
        }
    }
}

const TN: [&str; 8] = ["", "", "Two", "Three", "Four", "Five", "Six", "Seven"];
const SLOT: [&str; 7] = ["first", "second", "third", "forth", "fifth", "sixth", "seventh"];

#[derive(Clone, Debug)]
pub enum Op {
    FromArray(Vec<u32>),
    Parts(Vec<u32>, u8),
    Set(u8, u32),
    Read,
    Select([u8; 5]),
    /// state-dependent write: set the slot to its current content with one bit flipped
    Flip(u8, u8),
}

fn words(ws: &[u32]) -> String {
    ws.iter().map(|w| hex(*w)).collect::<Vec<_>>().join(" ")
}

fn read_check(c: &C, model: &[u32], at: &str) -> Result<(), String> {
    let n = model.len();
    let (acc, arr, it, eq) = guard(|| c.read(model)).map_err(|m| format!("{}: reading panicked: {}", at, m))?;
    if acc != model {
        let k = (0..n).find(|i| acc.get(*i) != Some(&model[*i])).unwrap_or(0);
        return Err(format!("{}: {}::{}() returns {}, the slot was given {} (accessors read [{}], written [{}])", at, TN[n], SLOT[k], hex(*acc.get(k).unwrap_or(&0)), hex(model[k]), words(&acc), words(model)));
    }
    if arr != model {
        return Err(format!("{}: {}::to_arr() returns [{}], written [{}]", at, TN[n], words(&arr), words(model)));
    }
    if it != model {
        return Err(format!("{}: {}::iter() yields [{}], written [{}]", at, TN[n], words(&it), words(model)));
    }
    if !eq {
        return Err(format!("{}: the container is not equal to {}::from([{}])", at, TN[n], words(model)));
    }
    Ok(())
}

/// run one history for size n against the array model; every step is followed by a full read
pub fn history_clause(n: usize, ops: &[Op]) -> Result<(), String> {
    let mut model: Vec<u32> = vec![0; n];
    let mut c = C::from_arr(&model);
    // a default-constructed container holds blanks
    for (i, op) in ops.iter().enumerate() {
        let at = format!("step {} {}", i + 1, op_text(op));
        match op {
            Op::FromArray(ws) => {
                let ws: Vec<u32> = ws.iter().copied().chain(std::iter::repeat(0)).take(n).collect();
                c = guard(|| C::from_arr(&ws)).map_err(|m| format!("{}: panicked: {}", at, m))?;
                model = ws;
            }
            Op::Parts(ws, v) => {
                let ws: Vec<u32> = ws.iter().copied().chain(std::iter::repeat(0)).take(n).collect();
                c = guard(|| C::from_parts(&ws, *v)).map_err(|m| format!("{}: panicked: {}", at, m))?;
                model = ws;
            }
            Op::Set(slot, w) => {
                let s = *slot as usize % n;
                let mut c2 = c;
                guard(|| c2.set(s, *w)).map_err(|m| format!("{}: {}::set_{} panicked: {}", at, TN[n], SLOT[s], m))?;
                c = c2;
                model[s] = *w;
            }
            Op::Read => {}
            Op::Flip(slot, bit) => {
                let s = *slot as usize % n;
                let w = model[s] ^ (1u32 << (*bit % 32));
                let mut c2 = c;
                guard(|| c2.set(s, w)).map_err(|m| format!("{}: {}::set_{} panicked: {}", at, TN[n], SLOT[s], m))?;
                c = c2;
                model[s] = w;
            }
            Op::Select(p) => {
                if n >= 6 {
                    let p2 = p.map(|x| x % n as u8);
                    let got = guard(|| c.select(p2)).map_err(|m| format!("{}: five_from_permutation panicked: {}", at, m))?.unwrap();
                    let want = p2.map(|i| model[i as usize]);
                    if got != want {
                        return Err(format!("{}: {}::five_from_permutation({:?}) on [{}] gives [{}], the selected slots hold [{}]", at, TN[n], p2, words(&model), words(&got), words(&want)));
                    }
                }
            }
        }
        read_check(&c, &model, &at)?;
    }
    Ok(())
}

fn op_text(op: &Op) -> String {
    match op {
        Op::FromArray(ws) => format!("from([{}])", words(ws)),
        Op::Parts(ws, v) => format!("from parts #{} ([{}])", v, words(ws)),
        Op::Set(s, w) => format!("set slot index {} := {}", s, hex(*w)),
        Op::Read => "read".into(),
        Op::Select(p) => format!("select {:?}", p),
        Op::Flip(s, b) => format!("set slot index {} := its current word with bit {} flipped", s, b % 32),
    }
}

fn ops_json(ops: &[Op]) -> Value {
    json!(ops
        .iter()
        .map(|o| match o {
            Op::FromArray(ws) => json!({"from_array": ws.iter().map(|w| hex(*w)).collect::<Vec<_>>()}),
            Op::Parts(ws, v) => json!({"from_parts": ws.iter().map(|w| hex(*w)).collect::<Vec<_>>(), "variant": v}),
            Op::Set(s, w) => json!({"set": s, "word": hex(*w)}),
            Op::Read => json!("read"),
            Op::Select(p) => json!({"select": p}),
            Op::Flip(s, b) => json!({"flip": s, "bit": b}),
        })
        .collect::<Vec<_>>())
}

fn ops_from_json(v: &Value) -> Result<Vec<Op>, String> {
    let mut ops = Vec::new();
    for o in v.as_array().ok_or("ops")? {
        if o.as_str() == Some("read") {
            ops.push(Op::Read);
        } else if let Some(ws) = o.get("from_array") {
            ops.push(Op::FromArray(engine::parse_words(ws)?));
        } else if let Some(ws) = o.get("from_parts") {
            ops.push(Op::Parts(engine::parse_words(ws)?, o["variant"].as_u64().unwrap_or(0) as u8));
        } else if let Some(s) = o.get("set") {
            ops.push(Op::Set(s.as_u64().unwrap_or(0) as u8, engine::parse_word(&o["word"])?));
        } else if let Some(s) = o.get("flip") {
            ops.push(Op::Flip(s.as_u64().unwrap_or(0) as u8, o["bit"].as_u64().unwrap_or(0) as u8));
        } else if let Some(p) = o.get("select") {
            let mut q = [0u8; 5];
            for (i, x) in p.as_array().ok_or("select")?.iter().take(5).enumerate() {
                q[i] = x.as_u64().unwrap_or(0) as u8;
            }
            ops.push(Op::Select(q));
        } else {
            return Err("unknown op".into());
        }
    }
    Ok(ops)
}

fn word_strategy() -> impl Strategy<Value = u32> {
    prop_oneof![
        4 => any::<u32>(),
        4 => (0usize..52).prop_map(|i| card::DECK[i]),
        1 => Just(0u32),
        1 => Just(u32::MAX),
        1 => (0usize..52, 0u32..32).prop_map(|(i, b)| card::DECK[i] ^ (1 << b)),
        2 => (0usize..52, 1u32..8).prop_map(|(i, m)| card::DECK[i] | (m << 29)),
    ]
}

fn op_strategy() -> impl Strategy<Value = Op> {
    prop_oneof![
        2 => proptest::collection::vec(word_strategy(), 7).prop_map(Op::FromArray),
        2 => (proptest::collection::vec(word_strategy(), 7), 0u8..2).prop_map(|(w, v)| Op::Parts(w, v)),
        10 => (0u8..7, word_strategy()).prop_map(|(s, w)| Op::Set(s, w)),
        4 => (0u8..7, prop_oneof![3 => 29u8..32, 2 => 0u8..32]).prop_map(|(s, b)| Op::Flip(s, b)),
        1 => Just(Op::Read),
        2 => proptest::array::uniform5(0u8..7).prop_map(Op::Select),
    ]
}

pub fn run(run: &mut Run) -> PResult {
    run.rule = "histories: for each size 2..7 a sequence of 1..40 operations (construct from an array, construct from parts / by the slot constructor, set one slot, set one slot to its current word with one bit flipped, select five slots) with arbitrary u32 words (cards, flagged cards, corruptions, raw), compared after every step with a plain array that received the same writes — by accessor, to_arr, iter and equality with From<array>; exhaustively: every setter of every size on distinct sentinel words, every constructor, a rewrite sequence per setter (a card, each of its 32 one-bit variants, blank, all-ones, blank), every in-range index tuple for five_from_permutation on Six (6^5) and Seven (7^5) over three kinds of stored words. Non-trivial = histories containing a setter followed by a read (every step is followed by a full read); distinct by 64-bit hash of the history".into();
    run.assume("out-of-range selection indexes are outside the statement (they index past the array)");
    super::regress::replay_dir(run, "C19", check_case)?;
    {
        let mut items: Vec<(usize, Vec<Op>)> = Vec::new();
        for size in 2..=7usize {
            let base: Vec<u32> = (0..size as u32).map(|i| card::DECK[(i * 7 + 2) as usize]).collect();
            for k in 0..size {
                items.push((size, vec![Op::Parts(base.clone(), 0), Op::Set(k as u8, card::DECK[44 + k]), Op::Flip(k as u8, 30), Op::Set(((k + 1) % size) as u8, 0), Op::Select([0, 1, (k % size) as u8, 1, 0])]));
            }
        }
        super::common::disturbance_pass(run, &items, &|it| history_clause(it.0, &it.1), &|it| ("C19.history".into(), json!({"size": it.0, "ops": ops_json(&it.1)}), format!("size={}", it.0)))?;
    }
    let thorough = run.tier == Tier::Thorough;
    // E: every setter of every size, distinct sentinels; every constructor
    {
        let mut n = 0u64;
        for size in 2..=7usize {
            let base: Vec<u32> = (0..size as u32).map(|i| 0xA000_0001 + i * 0x0101_0101).collect();
            for variant in 0..3u8 {
                let ops = vec![if variant == 0 { Op::FromArray(base.clone()) } else { Op::Parts(base.clone(), variant - 1) }];
                n += 1;
                if let Err(m) = history_clause(size, &ops) {
                    run.generator("every constructor and setter on distinct sentinel words", "exhaustive", None, n, n, "");
                    return run.violation("C19.history", &format!("size={} {}", size, op_text(&ops[0])), json!({"size": size, "ops": ops_json(&ops)}), &m);
                }
            }
            for k in 0..size {
                // overwrite, then every single-bit variant of the stored word, then blank it
                let mut ops = vec![Op::FromArray(base.clone()), Op::Set(k as u8, card::DECK[k])];
                for b in 0..32u8 {
                    ops.push(Op::Flip(k as u8, b));
                }
                ops.push(Op::Set(k as u8, 0));
                ops.push(Op::Set(k as u8, u32::MAX));
                ops.push(Op::Set(k as u8, 0));
                n += 1;
                if let Err(m) = history_clause(size, &ops) {
                    run.generator("every constructor and setter on distinct sentinel words", "exhaustive", None, n, n, "");
                    return run.violation("C19.history", &format!("size={} rewrite slot {}", size, k), json!({"size": size, "ops": ops_json(&ops)}), &m);
                }
                for start in 0..2 {
                    let ops = vec![if start == 0 { Op::FromArray(base.clone()) } else { Op::Parts(base.clone(), 0) }, Op::Set(k as u8, 0x5EED_0000 + k as u32), Op::Read];
                    n += 1;
                    if let Err(m) = history_clause(size, &ops) {
                        run.generator("every constructor and setter on distinct sentinel words", "exhaustive", None, n, n, "");
                        return run.violation("C19.history", &format!("size={} set slot {}", size, k), json!({"size": size, "ops": ops_json(&ops)}), &m);
                    }
                }
            }
        }
        run.generator("every constructor and setter on distinct sentinel words", "exhaustive", Some(n), n, n, "27 setters x 2 starting constructors, 27 rewrite sequences (a card, then each of its 32 one-bit variants, blank, all-ones, blank) + 3 constructions per size");
    }
    // E: every in-range selection tuple
    {
        let mut n = 0u64;
        for (size, kind) in [(6usize, 0), (7, 0), (6, 1), (7, 1), (6, 2), (7, 2)] {
            // three kinds of stored words: arbitrary sentinels, real cards, flagged cards
            let base: Vec<u32> = (0..size as u32)
                .map(|i| match kind {
                    0 => 0xB000_0007 + i * 0x0011_0011,
                    1 => card::DECK[(i * 7) as usize],
                    _ => card::DECK[(i * 5 + 1) as usize] | ((1 + i % 7) << 29),
                })
                .collect();
            let total = size.pow(5);
            for idx in 0..total {
                let mut x = idx;
                let mut p = [0u8; 5];
                for i in 0..5 {
                    p[i] = (x % size) as u8;
                    x /= size;
                }
                n += 1;
                let ops = [Op::FromArray(base.clone()), Op::Select(p)];
                if let Err(m) = history_clause(size, &ops) {
                    run.generator("every in-range index tuple for five-slot selection", "exhaustive", Some(3 * (7776 + 16807)), n, n, "");
                    return run.violation("C19.history", &format!("size={} select {:?}", size, p), json!({"size": size, "ops": ops_json(&ops)}), &m);
                }
            }
        }
        run.generator("every in-range index tuple for five-slot selection", "exhaustive", Some(3 * (7776 + 16807)), n, n, "6^5 on Six and 7^5 on Seven, over three kinds of stored words: distinct sentinels, real cards, flagged cards");
    }
    // soak: more than 2^30 (thorough: 2^32) calls of the selection and setter functions in one process
    // (behaviour that depends on a call count)
    if !run.is_twin() {
        use rayon::prelude::*;
        let per_thread: u64 = if thorough { (1u64 << 32) / 16 + (1 << 16) } else { (1u64 << 30) / 16 + (1 << 16) };
        let bad: Option<String> = (0..16u64).into_par_iter().find_map_any(|k| {
            let base7: [u32; 7] = core::array::from_fn(|i| 0xC000_0000 + (k as u32) * 0x100 + i as u32);
            let mut s7 = Seven::from(base7);
            let s6 = Six::from([base7[0], base7[1], base7[2], base7[3], base7[4], base7[5]]);
            let mut model = base7;
            for n in 0..per_thread {
                let p = [(n % 7) as u8, ((n / 7) % 7) as u8, ((n / 49) % 7) as u8, 3, ((n + 5) % 7) as u8];
                let got = s7.five_from_permutation(p).to_arr();
                let want = [model[p[0] as usize], model[p[1] as usize], model[p[2] as usize], model[3], model[p[4] as usize]];
                if got != want {
                    return Some(format!("call number ~{} (x16 threads) of Seven::five_from_permutation({:?}) on [{}] gave [{}], the selected slots hold [{}]", n, p, words(&model), words(&got), words(&want)));
                }
                let q = [(n % 6) as u8, ((n / 6) % 6) as u8, 2, ((n / 36) % 6) as u8, 5];
                let got6 = s6.five_from_permutation(q).to_arr();
                let want6 = [base7[q[0] as usize], base7[q[1] as usize], base7[2], base7[q[3] as usize], base7[5]];
                if got6 != want6 {
                    return Some(format!("call number ~{} (x16 threads) of Six::five_from_permutation({:?}) gave [{}], the selected slots hold [{}]", n, q, words(&got6), words(&want6)));
                }
                if n % 64 == 0 {
                    let w = (n as u32).wrapping_mul(2654435761);
                    s7.set_fifth(w);
                    model[4] = w;
                    if s7.to_arr() != model {
                        return Some(format!("after call number ~{} of Seven::set_fifth the container holds [{}], written [{}]", n, words(&s7.to_arr()), words(&model)));
                    }
                }
            }
            None
        });
        let total = per_thread * 16 * 2;
        run.generator("soak: selection and setter calls counted past 2^30 (thorough 2^32) in one process", "call-count soak", None, total, 0, "16 threads, every result compared with the array model");
        if let Some(m) = bad {
            return run.violation("C19.soak", "call-count", json!({"calls": total}), &m);
        }
    }
    // R: histories
    {
        let st = engine::RStats::new();
        let cases = (if thorough { 8_000_000 } else { 1_000_000 }) / if run.is_twin() { 4 } else { 1 };
        let make = || (2usize..=7, proptest::collection::vec(op_strategy(), 1..40));
        let res = pt::run_sharded(run.seed, 0xC19, cases, &make, &|(n, ops): (usize, Vec<Op>)| {
            let mut h = mix(n as u64);
            let mut has_set = false;
            for o in &ops {
                h = mix(h ^ match o {
                    Op::FromArray(w) => engine::hash_words(w) ^ 1,
                    Op::Parts(w, v) => engine::hash_words(w) ^ 2 ^ ((*v as u64) << 40),
                    Op::Set(s, w) => {
                        has_set = true;
                        ((*s as u64) << 32 | *w as u64) ^ 3
                    }
                    Op::Read => 4,
                    Op::Flip(s, b) => {
                        has_set = true;
                        ((*s as u64) << 8 | *b as u64) ^ 7
                    }
                    Op::Select(p) => p.iter().fold(5u64, |m, x| m * 8 + *x as u64),
                });
            }
            st.note(h, has_set, Some(&format!("histories on {}", TN[n])), || json!({"size": n, "ops": ops_json(&ops)}));
            history_clause(n, &ops).map_err(|e| {
                st.freeze();
                e
            })
        });
        st.flush(run, "proptest histories of constructor / setter / selection calls", "proptest (stateful, model-based; 8 shards)", None, "size 2..7, 1..40 operations, a full read-back after every step");
        if let Err(f) = res {
            let (n, ops) = f.value;
            let m = history_clause(n, &ops).err().unwrap_or_default();
            return run.violation("C19.history", &format!("size={} {} ops", n, ops.len()), json!({"size": n, "ops": ops_json(&ops)}), &m);
        }
        run.sample(json!({"size": 7, "ops": [{"from_parts": ["0x1", "0x2", "0x3", "0x4", "0x5", "0x6", "0x7"], "variant": 0}, {"set": 5, "word": "0xFFFFFFFF"}, "read"], "model_after": ["0x1", "0x2", "0x3", "0x4", "0x5", "0xFFFFFFFF", "0x7"]}));
    }
    if thorough {
        super::fuzz::campaign(run, "c19_containers", 3_000_000)?;
    }
    run.exhaustive = false;
    run.exhaustive_note = "every setter, constructor and selection tuple is enumerated; histories over arbitrary words are an open domain and are sampled".into();
    Ok(())
}

pub fn check_case(clause: &str, case: &Value) -> Result<(), String> {
    if clause.ends_with(".after_disturbance") || clause.ends_with(".concurrent") || clause.ends_with(".concurrent_cold_start") || clause.ends_with(".after_repetition") {
        return super::common::replay_after_disturbance(case, check_case);
    }
    match clause {
        "C19.fuzz" => super::fuzz::check_fuzz_case(case),
        "C19.soak" => {
            // replay = the soak itself, single-threaded up to the recorded number of calls
            let calls = case["calls"].as_u64().unwrap_or(1 << 31);
            let base7: [u32; 7] = core::array::from_fn(|i| 0xC000_0000 + i as u32);
            let s7 = Seven::from(base7);
            for n in 0..calls {
                let p = [(n % 7) as u8, ((n / 7) % 7) as u8, ((n / 49) % 7) as u8, 3, ((n + 5) % 7) as u8];
                let got = s7.five_from_permutation(p).to_arr();
                let want = [base7[p[0] as usize], base7[p[1] as usize], base7[p[2] as usize], base7[3], base7[p[4] as usize]];
                if got != want {
                    return Err(format!("call number {} of Seven::five_from_permutation({:?}) gave [{}], the selected slots hold [{}]", n, p, words(&got), words(&want)));
                }
            }
            Ok(())
        }
        _ => {
            let n = case["size"].as_u64().ok_or("size")? as usize;
            if !(2..=7).contains(&n) {
                return Err("size".into());
            }
            history_clause(n, &ops_from_json(&case["ops"])?)
        }
    }
}

/// fuzz entry: bytes -> (size, ops) -> history clause
pub fn check_bytes(data: &[u8]) -> Result<(), String> {
    if data.is_empty() {
        return Ok(());
    }
    let n = 2 + (data[0] % 6) as usize;
    let mut i = 1usize;
    let byte = |i: &mut usize| -> u8 {
        let b = data.get(*i).copied().unwrap_or(0);
        *i += 1;
        b
    };
    let word = |i: &mut usize| -> u32 {
        let t = data.get(*i).copied().unwrap_or(0);
        *i += 1;
        match t % 4 {
            0 => {
                let b = data.get(*i).copied().unwrap_or(0);
                *i += 1;
                card::DECK[b as usize % 52]
            }
            1 => {
                let b = data.get(*i).copied().unwrap_or(0);
                *i += 1;
                b as u32
            }
            _ => {
                let mut v = 0u32;
                for k in 0..4 {
                    v |= (data.get(*i + k).copied().unwrap_or(0) as u32) << (8 * k);
                }
                *i += 4;
                v
            }
        }
    };
    let mut ops = Vec::new();
    while i < data.len() && ops.len() < 48 {
        let tag = byte(&mut i);
        ops.push(match tag % 8 {
            0 => Op::FromArray((0..n).map(|_| word(&mut i)).collect()),
            1 => Op::Parts((0..n).map(|_| word(&mut i)).collect(), tag >> 3),
            2..=4 => {
                let s = byte(&mut i);
                Op::Set(s, word(&mut i))
            }
            5 => {
                let s = byte(&mut i);
                Op::Flip(s, byte(&mut i))
            }
            6 => Op::Read,
            _ => {
                let mut p = [0u8; 5];
                for x in p.iter_mut() {
                    *x = byte(&mut i);
                }
                Op::Select(p)
            }
        });
    }
    history_clause(n, &ops).map_err(|m| format!("C19.history: {} [size {}, ops {}]", m, n, ops_json(&ops)))
}
