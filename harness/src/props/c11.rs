//! C11 — numeric card order is rank-then-suit; sorting is a descending rearrangement.

use super::common::*;
use crate::engine::{self, guard, hash_words, pt, PResult, Run, Tier};
use crate::model::card;
use ckc_rs::cards::five::Five;
use ckc_rs::cards::four::Four;
use ckc_rs::cards::seven::Seven;
use ckc_rs::cards::six::Six;
use ckc_rs::cards::three::Three;
use ckc_rs::cards::two::Two;
use ckc_rs::cards::HandValidator;
use proptest::prelude::*;
use serde_json::{json, Value};

fn order_clause(a: u32, b: u32) -> Result<(), String> {
    // a, b are crate constants looked up through the deck (C10 ties them to the layout)
    let ka = card::decode(a).ok_or("not a card")?;
    let kb = card::decode(b).ok_or("not a card")?;
    let want = ka.cmp(&kb); // (rank, suit) lexicographic, suit number: clubs 0 .. spades 3
    if a.cmp(&b) != want {
        return Err(format!("{} vs {} compare {:?} as integers but {:?} by rank then suit (S>H>D>C)", card::render(a), card::render(b), a.cmp(&b), want));
    }
    if !(a > 0) {
        return Err(format!("blank is not below {}", card::render(a)));
    }
    Ok(())
}

macro_rules! sort_obs {
    ($ty:ident, $n:expr, $ws:expr) => {{
        let a = arr::<$n>($ws).unwrap();
        let h = $ty::from(a);
        let sorted = guard(|| h.sort().to_arr().to_vec());
        let untouched = h.to_arr().to_vec();
        let mut h2 = $ty::from(a);
        let inplace = guard(|| {
            h2.sort_in_place();
            h2.to_arr().to_vec()
        });
        let twice = guard(|| h.sort().sort().to_arr().to_vec());
        (sorted, untouched, inplace, twice)
    }};
}

pub fn sort_clause(ws: &[u32]) -> Result<(), String> {
    let (sorted, untouched, inplace, twice) = match ws.len() {
        2 => sort_obs!(Two, 2, ws),
        3 => sort_obs!(Three, 3, ws),
        4 => sort_obs!(Four, 4, ws),
        5 => sort_obs!(Five, 5, ws),
        6 => sort_obs!(Six, 6, ws),
        7 => sort_obs!(Seven, 7, ws),
        n => return Err(format!("size {}", n)),
    };
    let hand = card::render_hand(ws);
    let tn = ["", "", "Two", "Three", "Four", "Five", "Six", "Seven"][ws.len()];
    let sorted = sorted.map_err(|m| format!("{}::sort on [{}] panicked: {}", tn, hand, m))?;
    let inplace = inplace.map_err(|m| format!("{}::sort_in_place on [{}] panicked: {}", tn, hand, m))?;
    let twice = twice.map_err(|m| format!("{}::sort twice on [{}] panicked: {}", tn, hand, m))?;
    let mut want = ws.to_vec();
    want.sort_unstable_by(|a, b| b.cmp(a));
    if sorted != want {
        let why = if sorted.windows(2).any(|p| p[0] < p[1]) { "not in non-increasing order" } else { "not the same multiset of words" };
        return Err(format!("{}::sort on [{}] gave [{}]: {} (expected [{}])", tn, hand, card::render_hand(&sorted), why, card::render_hand(&want)));
    }
    if untouched != ws {
        return Err(format!("{}::sort changed the hand it was called on: [{}] became [{}]", tn, hand, card::render_hand(&untouched)));
    }
    if inplace != want {
        return Err(format!("{}::sort_in_place on [{}] left [{}], sort() returns [{}]", tn, hand, card::render_hand(&inplace), card::render_hand(&want)));
    }
    if twice != want {
        return Err(format!("{}::sort is not idempotent on [{}]: sorting twice gives [{}]", tn, hand, card::render_hand(&twice)));
    }
    Ok(())
}

pub fn run(run: &mut Run) -> PResult {
    run.rule = "all 52 x 52 pairs of deck cards for the numeric order; sorting: every ordered tuple of sizes 2..7 over an 8-word alphabet {blank, a low card, a high card, a flagged card, 0xFFFFFFFF, 1, 0x80000000, a card with its lowest bit flipped} (8^2..8^7) and proptest arrays of arbitrary u32 words with forced duplicates, sizes 2..7: output = the input multiset in non-increasing order (both directions), sort() leaves the original untouched, sort_in_place agrees, idempotent. Non-trivial = inputs with a duplicate word or a non-card word; distinct by 64-bit hash of the array".into();
    super::regress::replay_dir(run, "C11", check_case)?;
    {
        let a = card::DECK;
        let sym: [u32; 6] = [0, a[51], a[0] | card::QUADS, u32::MAX, 1, a[20]];
        let mut items: Vec<Vec<u32>> = Vec::new();
        for size in 2..=7usize {
            for idx in (0..6usize.pow(size as u32)).step_by(if size > 4 { 37 } else { 1 }) {
                let mut x = idx;
                items.push((0..size).map(|_| { let w = sym[x % 6]; x /= 6; w }).collect());
            }
        }
        disturbance_pass(run, &items, &|ws| sort_clause(ws), &|ws| ("C11.sort".into(), hand_json(ws), card::render_hand(ws)))?;
    }
    let deck = ckc_rs::deck::POKER_DECK.arr();
    let mut n = 0u64;
    for a in deck {
        for b in deck {
            n += 1;
            if let Err(m) = order_clause(a, b) {
                run.generator("all pairs of deck cards", "exhaustive", Some(2704), n, n, "");
                return run.violation("C11.order", &format!("{} {}", card::render(a), card::render(b)), json!({"a": engine::hex(a), "b": engine::hex(b)}), &m);
            }
        }
    }
    run.generator("all pairs of deck cards", "exhaustive", Some(2704), n, n - 52, "non-trivial = pairs of different cards; integer comparison vs (rank, suit) lexicographic; blank below all");
    count_soak(run, "sorting six- and seven-slot hands of real cards (and a few other hands)", (1 << 25) + (1 << 12), &soak_step)?;
    // absence soak: one hand sorted once, then a hand of *other* cards sorted 2^24 + 2^12 times, then
    // hands holding the first cards again (state that goes stale while an input is not seen)
    if !run.is_twin() {
        let d = card::DECK;
        let first: [u32; 7] = [d[0], d[9], d[18], d[27], d[36], d[45], d[50]];
        let other: [u32; 7] = [d[3], d[12], d[21], d[30], d[39], d[48], d[5]];
        let sorted = |a: [u32; 7]| {
            let mut w = a;
            w.sort_unstable_by(|x, y| y.cmp(x));
            w
        };
        let mut bad: Option<(Vec<u32>, Vec<u32>)> = None;
        if Seven::from(first).sort().to_arr() != sorted(first) {
            bad = Some((first.to_vec(), Seven::from(first).sort().to_arr().to_vec()));
        }
        let n_calls: u64 = (1 << 24) + (1 << 12);
        let want_other = sorted(other);
        let mut k = 0u64;
        while bad.is_none() && k < n_calls {
            let got = Seven::from(other).sort().to_arr();
            if got != want_other {
                bad = Some((other.to_vec(), got.to_vec()));
            }
            k += 1;
            // around the 2^24 mark the first hand (and six-slot mixtures) are looked at after every call
            if k >= (1 << 24) - 4 && bad.is_none() {
                let got = Seven::from(first).sort().to_arr();
                if got != sorted(first) {
                    bad = Some((first.to_vec(), got.to_vec()));
                }
                let six = [first[0], other[1], first[2], other[3], first[4], other[5]];
                let g6 = Six::from(six).sort().to_arr();
                let mut w6 = six;
                w6.sort_unstable_by(|x, y| y.cmp(x));
                if bad.is_none() && g6 != w6 {
                    bad = Some((six.to_vec(), g6.to_vec()));
                }
            }
        }
        run.generator("absence soak: a hand sorted once, another hand 2^24 + 2^12 times, then the first again", "call-count soak", None, n_calls, 0, "state that goes stale while an input is not seen for a power-of-two number of calls");
        if let Some((ws, got)) = bad {
            return run.violation("C11.sort", &card::render_hand(&ws), hand_json(&ws), &format!("after a soak of up to {} sorts of another hand: sort on [{}] gave [{}]", k, card::render_hand(&ws), card::render_hand(&got)));
        }
    }
    // E: small alphabet, all tuples
    {
        let a = card::DECK;
        // blank, a low card, a high card, a flagged card, all ones, 1 (shares its upper 20 bits with
        // blank), the bare top bit, a word differing from a card only below the suit nibble
        let sym: [u32; 8] = [0, a[51], a[0], a[20] | card::TRIPS, u32::MAX, 1, 0x8000_0000, a[51] ^ 1];
        let mut n = 0u64;
        let mut nt = 0u64;
        for size in 2..=7usize {
            let total = 8usize.pow(size as u32);
            for idx in 0..total {
                let mut x = idx;
                let mut ws = Vec::with_capacity(size);
                for _ in 0..size {
                    ws.push(sym[x % 8]);
                    x /= 8;
                }
                n += 1;
                let mut s = ws.clone();
                s.sort_unstable();
                if s.windows(2).any(|p| p[0] == p[1]) || ws.iter().any(|w| !card::is_card(*w)) {
                    nt += 1;
                }
                if let Err(m) = sort_clause(&ws) {
                    run.generator("all tuples of sizes 2..7 over 8 words", "exhaustive", None, n, nt, "");
                    return run.violation("C11.sort", &card::render_hand(&ws), hand_json(&ws), &m);
                }
            }
        }
        run.generator("all tuples of sizes 2..7 over 8 words", "exhaustive", Some(n), n, nt, "8^2 + ... + 8^7 ordered arrays");
    }
    // E: single-bit twins: a card and the same word with one bit flipped (every bit 0..31), in every
    // ordered pair of slots of every size, the other slots holding other cards
    {
        let d = card::DECK;
        let mut n = 0u64;
        for b in 0..32u32 {
            for (ci, c) in [d[0], d[20], d[51]].iter().enumerate() {
                let twin = c ^ (1 << b);
                for size in 2..=7usize {
                    for i in 0..size {
                        for j in 0..size {
                            if i == j {
                                continue;
                            }
                            let mut ws: Vec<u32> = (0..size).map(|k| d[(5 + 9 * k + 3 * ci) % 52]).collect();
                            ws[i] = *c;
                            ws[j] = twin;
                            n += 1;
                            if let Err(m) = sort_clause(&ws) {
                                run.generator("single-bit twins in every slot pair", "structured-exhaustive", None, n, n, "");
                                return run.violation("C11.sort", &card::render_hand(&ws), hand_json(&ws), &m);
                            }
                        }
                    }
                }
            }
        }
        run.generator("single-bit twins in every slot pair", "structured-exhaustive", Some(n), n, n, "3 cards x 32 bits x sizes 2..7 x ordered slot pairs: two words that differ in exactly one bit must still be ordered");
    }
    // R
    {
        let st = engine::RStats::new();
        let cases = (if run.tier == Tier::Thorough { 16_000_000 } else { 2_000_000 }) / if run.is_twin() { 4 } else { 1 };
        let make = || {
        let word = prop_oneof![
            5 => any::<u32>(),
            4 => (0usize..52).prop_map(|i| card::DECK[i]),
            1 => (0usize..52, 1u32..8).prop_map(|(i, m)| card::DECK[i] | (m << 29)),
            1 => prop_oneof![Just(0u32), Just(u32::MAX), Just(1u32), Just(u32::MAX - 1)],
        ];
        (2usize..=7).prop_flat_map(move |n| (proptest::collection::vec(word.clone(), n), proptest::collection::vec(proptest::option::weighted(0.2, 0usize..7), n))).prop_map(|(mut ws, copies)| {
            for i in 1..ws.len() {
                if let Some(from) = copies[i] {
                    ws[i] = ws[from % i];
                }
            }
            ws
        })
        };
        let res = pt::run_sharded(run.seed, 0xC11, cases, &make, &|ws: Vec<u32>| {
            let mut s = ws.clone();
            s.sort_unstable();
            let special = s.windows(2).any(|p| p[0] == p[1]) || ws.iter().any(|w| !card::is_card(*w));
            st.note(hash_words(&ws), special, Some(&format!("size {}", ws.len())), || json!({"input": card::render_hand(&ws)}));
            sort_clause(&ws).map_err(|e| {
                st.freeze();
                e
            })
        });
        st.flush(run, "proptest arrays of arbitrary words, sizes 2..7", "proptest (8 shards)", None, "raw u32, cards, flagged cards, extremes; 20% of slots copy an earlier slot");
        if let Err(f) = res {
            let m = sort_clause(&f.value).err().unwrap_or_default();
            return run.violation("C11.sort", &card::render_hand(&f.value), hand_json(&f.value), &m);
        }
        run.sample(json!({"input": "2♣ 0xFFFFFFFF __ A♠ 2♣", "sorted": card::render_hand(&Five::from([card::DECK[51], u32::MAX, 0, card::DECK[0], card::DECK[51]]).sort().to_arr())}));
    }
    run.exhaustive = false;
    run.exhaustive_note = "card pairs and the 6-word alphabet completely; arbitrary word arrays are an open domain (2^32^N) and are sampled".into();
    Ok(())
}

pub fn check_case(clause: &str, case: &Value) -> Result<(), String> {
    if clause.ends_with(".soak") {
        return replay_soak(case, &soak_step);
    }
    if clause.ends_with(".after_disturbance") || clause.ends_with(".concurrent") || clause.ends_with(".concurrent_cold_start") || clause.ends_with(".after_repetition") {
        return replay_after_disturbance(case, check_case);
    }
    match clause {
        "C11.order" => order_clause(engine::parse_word(&case["a"])?, engine::parse_word(&case["b"])?),
        _ => sort_clause(&engine::parse_words(&case["words"])?),
    }
}

/// soak step n: a hand derived from n, sorted, compared with the reference arrangement
pub fn soak_step(n: u64) -> Result<(), String> {
    let d = card::DECK;
    let k = (n % 97) as usize;
    let mut ws: Vec<u32> = (0..if n % 2 == 0 { 7 } else { 6 }).map(|i| d[(k * 3 + i * (1 + (n as usize >> 7) % 7) * 5 + (n as usize >> 3) % 11) % 52]).collect();
    if n % 1024 == 5 {
        ws[0] = 0;
    }
    if n % 4096 == 9 {
        ws[1] = ws[2] | card::QUADS;
    }
    let got: Vec<u32> = if ws.len() == 7 { Seven::from(arr::<7>(&ws).unwrap()).sort().to_arr().to_vec() } else { Six::from(arr::<6>(&ws).unwrap()).sort().to_arr().to_vec() };
    let mut want = ws.clone();
    want.sort_unstable_by(|a, b| b.cmp(a));
    if got != want {
        return Err(format!("sort on [{}] gave [{}], expected [{}]", card::render_hand(&ws), card::render_hand(&got), card::render_hand(&want)));
    }
    Ok(())
}
