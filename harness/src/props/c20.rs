//! C20 — multiples flags leave card fields intact, strip cleanly, and dominate order.

use crate::engine::{self, guard, hex, PResult, Run};
use crate::model::card;
use ckc_rs::PokerCard;
use serde_json::{json, Value};

fn apply(w: u32, order: &[u8]) -> u32 {
    let mut x = w;
    for o in order {
        x = match o {
            0 => x.flag_as_pair(),
            1 => x.flag_as_trips(),
            _ => x.flag_as_quads(),
        };
    }
    x
}

/// all sequences of distinct flag calls (orders of every subset of the three marks)
fn sequences() -> Vec<Vec<u8>> {
    let mut v = vec![vec![]];
    for a in 0..3u8 {
        v.push(vec![a]);
        for b in 0..3u8 {
            if b != a {
                v.push(vec![a, b]);
                for c in 0..3u8 {
                    if c != a && c != b {
                        v.push(vec![a, b, c]);
                    }
                }
            }
        }
    }
    v
}

fn marks_of(order: &[u8]) -> u32 {
    order.iter().fold(0, |m, o| m | (1 << o))
}

fn clauses(w: u32, order: &[u8]) -> Result<(), String> {
    let name = card::render(w);
    let marks = marks_of(order);
    let m = guard(|| apply(w, order)).map_err(|e| format!("flagging {} panicked: {}", name, e))?;
    let want = w | (marks << 29);
    if m != want {
        return Err(format!("marking {} with {:?} (0=pair,1=trips,2=quads) gives {}, expected {} (only the top three bits may change)", name, order, hex(m), hex(want)));
    }
    // accessors read the same as on the unmarked card
    macro_rules! same {
        ($what:expr, $f:ident) => {
            let (a, b) = (guard(|| m.$f()).map_err(|e| format!("{} panicked: {}", $what, e))?, w.$f());
            if a != b {
                return Err(format!("{} on {} marked {:?} = {:?}, on the unmarked card {:?}", $what, name, order, a, b));
            }
        };
    }
    same!("get_rank_bit", get_rank_bit);
    same!("get_rank_flag", get_rank_flag);
    same!("get_rank_prime", get_rank_prime);
    same!("get_suit_bit", get_suit_bit);
    same!("get_suit_flag", get_suit_flag);
    same!("get_rank_char", get_rank_char);
    same!("get_suit_char", get_suit_char);
    same!("get_suit_letter", get_suit_letter);
    same!("get_card_rank", get_card_rank);
    same!("get_card_suit", get_card_suit);
    same!("get_chen_points", get_chen_points);
    // and match the model's fields (not merely each other)
    let (r, s) = card::decode(w).ok_or("not a card")?;
    if m.get_rank_prime() != card::PRIMES[r as usize] || m.get_suit_bit() != 1 << s || m.get_rank_bit() != 1 << r || m.get_rank_char() != card::RANK_CHARS[r as usize] || m.get_suit_char() != card::SUIT_GLYPHS[s as usize] {
        return Err(format!("fields of {} marked {:?} do not read back the card's rank/suit/prime/characters", name, order));
    }
    // idempotent re-marking
    for o in order {
        let again = apply(m, &[*o]);
        if again != m {
            return Err(format!("marking {} twice with mark {} changes the word from {} to {}", name, o, hex(m), hex(again)));
        }
    }
    // strip
    let st = guard(|| m.strip_multiples_flags()).map_err(|e| format!("strip panicked: {}", e))?;
    if st != w {
        return Err(format!("stripping the marks {:?} from {} returns {} instead of the original card {}", order, name, hex(st), hex(w)));
    }
    // dominance
    for u in card::DECK {
        if marks != 0 && !(m > u) {
            return Err(format!("{} marked {:?} ({}) is not numerically greater than the unmarked card {} ({})", name, order, hex(m), card::render(u), hex(u)));
        }
        for other in 0..8u32 {
            let o = u | (other << 29);
            if marks > other && !(m > o) {
                return Err(format!("{} with mark number {} is not above {} with mark number {} (quads 4 > trips 2 > pair 1)", name, marks, card::render(u), other));
            }
        }
    }
    Ok(())
}

pub fn run(run: &mut Run) -> PResult {
    run.rule = "all 52 cards x all 16 call sequences of distinct flag_as_* calls (every subset of the three marks in every order) compared against every unmarked card and every marked card with a smaller mark number; accessors against the unmarked card and the model's fields; idempotence; strip. Non-trivial = non-empty mark combinations on non-ace-of-spades cards (the suite marks A♠ only); distinct = distinct (card, sequence)".into();
    super::regress::replay_dir(run, "C20", check_case)?;
    {
        let items: Vec<(u32, Vec<u8>)> = card::DECK.iter().flat_map(|w| sequences().into_iter().map(move |s| (*w, s))).collect();
        super::common::disturbance_pass(run, &items, &|it| clauses(it.0, &it.1), &|it| ("C20.marks".into(), json!({"word": hex(it.0), "sequence": it.1}), format!("{}:{:?}", card::render(it.0), it.1)))?;
    }
    super::common::count_soak(run, "accessors and strip on marked words", (1 << 30) + (1 << 16), &soak_step)?;
    let seqs = sequences();
    let mut n = 0u64;
    let mut nt = 0u64;
    for w in card::DECK {
        for s in &seqs {
            n += 1;
            if !s.is_empty() && w != card::DECK[0] {
                nt += 1;
            }
            if let Err(m) = clauses(w, s) {
                run.generator("52 cards x 16 mark sequences x 52 x 8 comparisons", "exhaustive", Some(52 * 16), n, nt, "");
                return run.violation("C20.marks", &format!("{}:{:?}", card::render(w), s), json!({"word": hex(w), "sequence": s}), &m);
            }
        }
    }
    run.generator("52 cards x 16 mark sequences x 52 x 8 comparisons", "exhaustive", Some(52 * 16), n, nt, "cases = (card, sequence); each compared with all 52 x 8 other words");
    if !run.is_twin() {
        // call-order independence: every ordered pair of (card, marks) words, accessors read back to back
        let items: Vec<(u32, u32)> = card::DECK.iter().flat_map(|c| (0..8u32).map(move |m| (*c, m))).collect();
        let read = |w: u32| (w.get_rank_bit(), w.get_rank_flag(), w.get_rank_prime(), w.get_suit_bit(), w.get_suit_flag(), w.get_rank_char(), w.get_suit_char(), w.get_suit_letter(), w.get_card_rank(), w.get_card_suit(), w.strip_multiples_flags());
        let hit = engine::ordered_pairs(
            &items,
            &|a| {
                std::hint::black_box(read(a.0 | (a.1 << 29)));
            },
            &|b| {
                let (got, want) = (read(b.0 | (b.1 << 29)), read(b.0));
                if got == want && got.10 == b.0 {
                    Ok(())
                } else {
                    Err(format!("the accessors on {} with mark number {} read {:?}, on the unmarked card {:?}", card::render(b.0), b.1, got, want))
                }
            },
        );
        let np = (items.len() * items.len()) as u64;
        run.generator("all ordered pairs of marked words, accessors read back to back", "exhaustive (histories of length 2)", Some(np), np, np - items.len() as u64, "416 words (52 cards x 8 mark numbers)");
        if let Some((a, b, m)) = hit {
            let (wa, wb) = (items[a].0 | (items[a].1 << 29), items[b].0 | (items[b].1 << 29));
            return run.violation("C20.sequence", &format!("{} ; {}", hex(wa), hex(wb)), json!({"words": [hex(wa), hex(wb)]}), &format!("after reading {}: {}", hex(wa), m));
        }
        // the marks give sorting priority: hands holding marked words sort by the numeric order (C11's oracle)
        let mut ns = 0u64;
        for (i, c) in card::DECK.iter().enumerate() {
            for m in 1..8u32 {
                for n in 2..=7usize {
                    let mut ws: Vec<u32> = (0..n).map(|k| card::DECK[(i + 7 * k + 1) % 52]).collect();
                    ws[n / 2] = *c | (m << 29);
                    if n > 2 {
                        ws[0] = card::DECK[(i + 3) % 52] | (((m + 2) % 8) << 29);
                    }
                    ns += 1;
                    if let Err(e) = super::c11::sort_clause(&ws) {
                        run.generator("hands holding marked words, sorted", "structured", None, ns, ns, "");
                        return run.violation("C20.sort", &card::render_hand(&ws), json!({"words": ws.iter().map(|w| hex(*w)).collect::<Vec<_>>()}), &format!("marked words must sort by their numeric value (quads > trips > pair > unmarked): {}", e));
                    }
                }
            }
        }
        run.generator("hands holding marked words, sorted", "structured", Some(ns), ns, ns, "52 cards x 7 mark numbers x sizes 2..7, a second marked word in slot 0");
    }
    for i in 0..8u32 {
        run.class(&format!("mark number {}", i), 52 * seqs.iter().filter(|s| marks_of(s) == i).count() as u64);
    }
    run.sample(json!({"card": "2♣", "sequence": [2, 0], "word": hex(apply(card::DECK[51], &[2, 0])), "stripped": hex(apply(card::DECK[51], &[2, 0]).strip_multiples_flags())}));
    run.exhaustive = true;
    run.exhaustive_note = "all cards x all mark combinations in all call orders x all comparison partners".into();
    Ok(())
}

pub fn check_case(clause: &str, case: &Value) -> Result<(), String> {
    if clause.ends_with(".soak") {
        return super::common::replay_soak(case, &soak_step);
    }
    if clause.ends_with(".after_disturbance") || clause.ends_with(".concurrent") || clause.ends_with(".concurrent_cold_start") || clause.ends_with(".after_repetition") {
        return super::common::replay_after_disturbance(case, check_case);
    }
    if clause == "C20.sort" {
        return super::c11::sort_clause(&engine::parse_words(&case["words"])?);
    }
    if clause == "C20.sequence" {
        let ws = engine::parse_words(&case["words"])?;
        let read = |w: u32| (w.get_rank_bit(), w.get_rank_prime(), w.get_suit_bit(), w.get_rank_char(), w.get_suit_char(), w.get_card_rank(), w.get_card_suit(), w.strip_multiples_flags());
        std::hint::black_box(read(card::DECK[30]));
        for w in &ws {
            let base = *w & 0x1FFF_FFFF;
            let (got, want) = (read(*w), read(base));
            if got != want {
                return Err(format!("the accessors on {} read {:?}, on the unmarked card {:?}", hex(*w), got, want));
            }
        }
        return Ok(());
    }
    let w = engine::parse_word(&case["word"])?;
    let s: Vec<u8> = case["sequence"].as_array().ok_or("sequence")?.iter().map(|x| x.as_u64().unwrap_or(0) as u8).collect();
    clauses(w, &s)
}

/// soak step n: accessors of a marked word against the unmarked card
pub fn soak_step(n: u64) -> Result<(), String> {
    let c = card::DECK[(n % 52) as usize];
    let m = ((n / 52) % 8) as u32;
    let w = c | (m << 29);
    let ok = w.get_rank_char() == c.get_rank_char() && w.get_suit_bit() == c.get_suit_bit() && w.get_rank_prime() == c.get_rank_prime() && w.get_rank_bit() == c.get_rank_bit() && w.strip_multiples_flags() == c && (n % 64 != 0 || (w.get_suit_char() == c.get_suit_char() && w.get_card_rank() == c.get_card_rank() && w.get_card_suit() == c.get_card_suit()));
    if ok && c.get_rank_char() == card::RANK_CHARS[card::decode(c).unwrap().0 as usize] {
        Ok(())
    } else {
        Err(format!("the accessors on {} with mark number {} no longer read the unmarked card's fields (rank char {:?}, suit bit {}, prime {}, stripped {})", card::render(c), m, w.get_rank_char(), w.get_suit_bit(), w.get_rank_prime(), hex(w.strip_multiples_flags())))
    }
}
