//! C20 — multiples flags leave card fields intact, strip cleanly, and dominate order.

use crate::engine::{self, guard, hex, PResult, Run};
use crate::model::card;
use ckc_rs::PokerCard;
use serde_json::{json, Value};

fn apply(w: u32, order: &[u8]) -> u32 {
    let mut x = w;
    for o in order {
        x = match o {
            0 => x.flag_as_pair(),
            1 => x.flag_as_trips(),
            _ => x.flag_as_quads(),
        };
    }
    x
}

/// all sequences of distinct flag calls (orders of every subset of the three marks)
fn sequences() -> Vec<Vec<u8>> {
    let mut v = vec![vec![]];
    for a in 0..3u8 {
        v.push(vec![a]);
        for b in 0..3u8 {
            if b != a {
                v.push(vec![a, b]);
                for c in 0..3u8 {
                    if c != a && c != b {
                        v.push(vec![a, b, c]);
                    }
                }
            }
        }
    }
    v
}

fn marks_of(order: &[u8]) -> u32 {
    order.iter().fold(0, |m, o| m | (1 << o))
}

fn clauses(w: u32, order: &[u8]) -> Result<(), String> {
    let name = card::render(w);
    let marks = marks_of(order);
    let m = guard(|| apply(w, order)).map_err(|e| format!("flagging {} panicked: {}", name, e))?;
    let want = w | (marks << 29);
    if m != want {
        return Err(format!("marking {} with {:?} (0=pair,1=trips,2=quads) gives {}, expected {} (only the top three bits may change)", name, order, hex(m), hex(want)));
    }
    // accessors read the same as on the unmarked card
    macro_rules! same {
        ($what:expr, $f:ident) => {
            let (a, b) = (guard(|| m.$f()).map_err(|e| format!("{} panicked: {}", $what, e))?, w.$f());
            if a != b {
                return Err(format!("{} on {} marked {:?} = {:?}, on the unmarked card {:?}", $what, name, order, a, b));
            }
        };
    }
    same!("get_rank_bit", get_rank_bit);
    same!("get_rank_flag", get_rank_flag);
    same!("get_rank_prime", get_rank_prime);
    same!("get_suit_bit", get_suit_bit);
    same!("get_suit_flag", get_suit_flag);
    same!("get_rank_char", get_rank_char);
    same!("get_suit_char", get_suit_char);
    same!("get_suit_letter", get_suit_letter);
    same!("get_card_rank", get_card_rank);
    same!("get_card_suit", get_card_suit);
    same!("get_chen_points", get_chen_points);
    // and match the model's fields (not merely each other)
    let (r, s) = card::decode(w).ok_or("not a card")?;
    if m.get_rank_prime() != card::PRIMES[r as usize] || m.get_suit_bit() != 1 << s || m.get_rank_bit() != 1 << r || m.get_rank_char() != card::RANK_CHARS[r as usize] || m.get_suit_char() != card::SUIT_GLYPHS[s as usize] {
        return Err(format!("fields of {} marked {:?} do not read back the card's rank/suit/prime/characters", name, order));
    }
    // idempotent re-marking
    for o in order {
        let again = apply(m, &[*o]);
        if again != m {
            return Err(format!("marking {} twice with mark {} changes the word from {} to {}", name, o, hex(m), hex(again)));
        }
    }
    // strip
    let st = guard(|| m.strip_multiples_flags()).map_err(|e| format!("strip panicked: {}", e))?;
    if st != w {
        return Err(format!("stripping the marks {:?} from {} returns {} instead of the original card {}", order, name, hex(st), hex(w)));
    }
    // dominance
    for u in card::DECK {
        if marks != 0 && !(m > u) {
            return Err(format!("{} marked {:?} ({}) is not numerically greater than the unmarked card {} ({})", name, order, hex(m), card::render(u), hex(u)));
        }
        for other in 0..8u32 {
            let o = u | (other << 29);
            if marks > other && !(m > o) {
                return Err(format!("{} with mark number {} is not above {} with mark number {} (quads 4 > trips 2 > pair 1)", name, marks, card::render(u), other));
            }
        }
    }
    Ok(())
}

pub fn run(run: &mut Run) -> PResult {
    run.rule = "all 52 cards x all 16 call sequences of distinct flag_as_* calls (every subset of the three marks in every order) compared against every unmarked card and every marked card with a smaller mark number; accessors against the unmarked card and the model's fields; idempotence; strip. Non-trivial = non-empty mark combinations on non-ace-of-spades cards (the suite marks A♠ only); distinct = distinct (card, sequence)".into();
    super::regress::replay_dir(run, "C20", check_case)?;
    let seqs = sequences();
    let mut n = 0u64;
    let mut nt = 0u64;
    for w in card::DECK {
        for s in &seqs {
            n += 1;
            if !s.is_empty() && w != card::DECK[0] {
                nt += 1;
            }
            if let Err(m) = clauses(w, s) {
                run.generator("52 cards x 16 mark sequences x 52 x 8 comparisons", "exhaustive", Some(52 * 16), n, nt, "");
                return run.violation("C20.marks", &format!("{}:{:?}", card::render(w), s), json!({"word": hex(w), "sequence": s}), &m);
            }
        }
    }
    run.generator("52 cards x 16 mark sequences x 52 x 8 comparisons", "exhaustive", Some(52 * 16), n, nt, "cases = (card, sequence); each compared with all 52 x 8 other words");
    for i in 0..8u32 {
        run.class(&format!("mark number {}", i), 52 * seqs.iter().filter(|s| marks_of(s) == i).count() as u64);
    }
    run.sample(json!({"card": "2♣", "sequence": [2, 0], "word": hex(apply(card::DECK[51], &[2, 0])), "stripped": hex(apply(card::DECK[51], &[2, 0]).strip_multiples_flags())}));
    run.exhaustive = true;
    run.exhaustive_note = "all cards x all mark combinations in all call orders x all comparison partners".into();
    Ok(())
}

pub fn check_case(_clause: &str, case: &Value) -> Result<(), String> {
    let w = engine::parse_word(&case["word"])?;
    let s: Vec<u8> = case["sequence"].as_array().ok_or("sequence")?.iter().map(|x| x.as_u64().unwrap_or(0) as u8).collect();
    clauses(w, &s)
}
