//! C01 — five-card rank value is the hand's exact poker strength ordinal.
//!
//! Generator: complete enumeration of all 2,598,960 five-card subsets x all 120 slot orders x six
//! entry points. Oracle: M-poker ordinal (rule-based key, sorted; see model::poker).

use super::common::*;
use crate::engine::enumerate::{choose, par_tuples, Acc};
use crate::engine::{self, guard, mix2, pt, PResult, Run};
use crate::model::{card, poker};
use ckc_rs::cards::five::Five;
use ckc_rs::cards::HandRanker;
use serde_json::{json, Value};

#[derive(Clone, Debug)]
struct Fail {
    c: [u8; 5],
    perm: usize,
    entry: usize,
    expected: u16,
    observed: Result<u16, String>,
}

struct A {
    subsets: u64,
    evals: u64,
    hist: Vec<u32>,
    route: [u64; 3],
    fail: Option<Fail>,
    samples: Vec<([u8; 5], u16)>,
}

impl Acc for A {
    fn merge(&mut self, o: Self) {
        self.subsets += o.subsets;
        self.evals += o.evals;
        for (a, b) in self.hist.iter_mut().zip(o.hist.iter()) {
            *a += *b;
        }
        for i in 0..3 {
            self.route[i] += o.route[i];
        }
        if self.fail.is_none() {
            self.fail = o.fail;
        }
        if self.samples.len() < 4 {
            self.samples.extend(o.samples);
            self.samples.truncate(4);
        }
    }
    fn failed(&self) -> bool {
        self.fail.is_some()
    }
}

#[inline(always)]
fn fast_all(a: [u32; 5], exp: u16) -> u32 {
    let f = Five::from(a);
    let mut bad = 0u32;
    if f.hand_rank_value() != exp {
        bad |= 1;
    }
    if f.hand_rank_value_validated() != exp {
        bad |= 2;
    }
    if ckc_rs::evaluate::five_cards(a) != exp {
        bad |= 4;
    }
    if f.hand_rank().value != exp {
        bad |= 8;
    }
    if f.hand_rank_validated().value != exp {
        bad |= 16;
    }
    if f.hand_rank_value_and_hand().0 != exp {
        bad |= 32;
    }
    bad
}

fn slow_subset(c: &[u8; 5], exp: u16, perms: &[[u8; 5]]) -> Option<Fail> {
    let w = words_of_ci(c);
    for (pi, p) in perms.iter().enumerate() {
        let a = engine::apply_perm(&w, p);
        for (ei, e) in FIVE_ENTRIES.iter().enumerate() {
            let r = call(e.1, a);
            if r != Ok(exp) {
                return Some(Fail { c: *c, perm: pi, entry: ei, expected: exp, observed: r });
            }
        }
    }
    None
}

fn fail_case(f: &Fail, perms: &[[u8; 5]]) -> Value {
    let w = engine::apply_perm(&words_of_ci(&f.c), &perms[f.perm]);
    let mut j = hand_json(&w);
    let o = j.as_object_mut().unwrap();
    o.insert("order".into(), json!(perms[f.perm]));
    o.insert("entry".into(), json!(FIVE_ENTRIES[f.entry].0));
    o.insert("expected".into(), json!(f.expected));
    o.insert(
        "observed".into(),
        match &f.observed {
            Ok(v) => json!(v),
            Err(m) => json!(format!("panic: {}", m)),
        },
    );
    j
}

pub fn run(run: &mut Run) -> PResult {
    let t = poker::tables();
    let perms = perms5();
    run.rule = "complete enumeration: every 5-subset of the 52 model cards (ascending card index) x all 120 slot orders x 6 entry points; \
                expected value = rule-based strength ordinal. A case (one subset) is non-trivial when it was also evaluated under a \
                non-identity slot order (all are); distinct = distinct subsets"
        .into();
    run.assume("the model's 52 words are the crate's 52 cards (checked by C10)");
    run.assume("strength order derived from the rules of poker; model self-checked against published class and frequency counts");

    super::regress::replay_dir(run, "C01", check_case)?;
    {
        let t = poker::tables();
        let items: Vec<([u32; 5], u16)> = (1..=7462u16).map(|v| (words_of_ci(&t.rep[v as usize]), v)).collect();
        disturbance_pass(
            run,
            &items,
            &|it| {
                for e in FIVE_ENTRIES.iter() {
                    let r = call(e.1, it.0);
                    if r != Ok(it.1) {
                        return Err(format!("{} on {} returned {:?}, the strength ordinal is {}", e.0, card::render_hand(&it.0), r, it.1));
                    }
                }
                Ok(())
            },
            &|it| {
                let mut c = hand_json(&it.0);
                c.as_object_mut().unwrap().insert("entry".into(), json!(FIVE_ENTRIES[0].0));
                ("C01.value".into(), c, card::render_hand(&it.0))
            },
        )?;
    }
    if !run.is_twin() {
        // ranking must be a function of the hand alone: call sequences over neighbour hands
        super::multi::purity::<5, super::multi::H5>(run, "C01.sequence", super::multi::Mode::Value)?;
        // every ordered pair of class representatives back to back (7,462 classes, two suit/slot
        // arrangements each): closes "the value does not depend on the previous call" for every
        // pair of rank patterns
        let t = poker::tables();
        let mut items: Vec<([u32; 5], u16)> = Vec::new();
        for v in 1..=7462u16 {
            let w = words_of_ci(&t.rep[v as usize]);
            items.push((w, v));
            let mut sh = [card::shift(w[4]), card::shift(w[3]), card::shift(w[2]), card::shift(w[1]), card::shift(w[0])];
            if v % 2 == 0 {
                sh.swap(0, 3);
            }
            items.push((sh, v));
        }
        // the public product-search helper, called with keys related to the next hand's prime product
        // (the product plus high bits, neighbours, truncations), immediately before ranking that hand
        {
            let mut cnt = 0u64;
            for (w, v) in items.iter().step_by(2) {
                let prod: u64 = w.iter().map(|c| (c & 0x3F) as u64).product();
                for k in [prod, prod + 1, prod.wrapping_sub(1), prod | (1 << 32), prod | (1 << 40), prod + (1 << 48), prod + (3 << 48), prod | (1 << 63), prod << 16, prod & 0xFFFF, !prod] {
                    cnt += 1;
                    let _ = guard(|| Five::find_in_products(k as usize));
                    let got = guard(|| Five::from(*w).hand_rank_value());
                    if got != Ok(*v) {
                        run.generator("product-search helper with a related key, then the ranking", "exhaustive over classes x related keys (histories across functions)", None, cnt, cnt, "");
                        let seq = vec![hand_json(w)];
                        return run.violation("C01.after_helper", &format!("find_in_products({}) ; {}", k, card::render_hand(w)), json!({"key": k, "size": 5, "sequence": seq}), &format!("after Five::find_in_products({}): Five::hand_rank_value on [{}] returned {:?}, the strength ordinal is {}", k, card::render_hand(w), got, v));
                    }
                }
            }
            run.generator("product-search helper with a related key, then the ranking", "exhaustive over classes x related keys (histories across functions)", Some(cnt), cnt, cnt, "keys: the hand's prime product, +-1, with bits 32/40/48/49/63 added, shifted, truncated, complemented");
        }
        let n = items.len() as u64;
        // one thread over the plain representatives (every pair really back to back), then all
        // threads over the doubled set
        let plain: Vec<([u32; 5], u16)> = items.iter().step_by(2).copied().collect();
        let touch1 = |a: &([u32; 5], u16)| {
            std::hint::black_box(Five::from(a.0).hand_rank_value());
        };
        let check1 = |b: &([u32; 5], u16)| -> Result<(), String> {
            let v = Five::from(b.0).hand_rank_value();
            if v == b.1 {
                Ok(())
            } else {
                Err(format!("[{}] returned {}, the strength ordinal is {}", card::render_hand(&b.0), v, b.1))
            }
        };
        if let Some((a, b, m)) = engine::ordered_pairs_mode(&plain, &touch1, &check1, false) {
            let seq = vec![hand_json(&plain[a].0), hand_json(&plain[b].0)];
            let sig = format!("{} ; {}", card::render_hand(&plain[a].0), card::render_hand(&plain[b].0));
            run.violation("C01.sequence", &sig, json!({"size": 5, "sequence": seq}), &format!("after ranking [{}]: {}", card::render_hand(&plain[a].0), m))?;
        }
        let hit = engine::ordered_pairs(
            &items,
            &|a| {
                std::hint::black_box(Five::from(a.0).hand_rank_value());
            },
            &|b| {
                let f = Five::from(b.0);
                let (v1, v2, v3) = (f.hand_rank_value(), f.hand_rank_value_validated(), ckc_rs::evaluate::five_cards(b.0));
                if v1 == b.1 && v2 == b.1 && v3 == b.1 {
                    Ok(())
                } else {
                    Err(format!("[{}] returned {} / {} / {} (hand_rank_value / validated / evaluate::five_cards), the strength ordinal is {}", card::render_hand(&b.0), v1, v2, v3, b.1))
                }
            },
        );
        run.generator("all ordered pairs of class representatives, ranked back to back", "exhaustive (histories of length 2)", Some(n * n), n * n, n * n - n, "items = one hand per strength class in two suit/slot arrangements (the 7,462 x 7,462 pairs of the first arrangement on a single thread, the rest on all threads); non-trivial = pairs of different items");
        if let Some((a, b, m)) = hit {
            let seq = vec![hand_json(&items[a].0), hand_json(&items[b].0)];
            let sig = format!("{} ; {}", card::render_hand(&items[a].0), card::render_hand(&items[b].0));
            run.violation("C01.sequence", &sig, json!({"size": 5, "sequence": seq}), &format!("after ranking [{}]: {}", card::render_hand(&items[a].0), m))?;
        }
    }
    let acc = par_tuples::<5, A>(
        52,
        true,
        || A { subsets: 0, evals: 0, hist: vec![0; 7463 + 1], route: [0; 3], fail: None, samples: Vec::new() },
        |acc, c| {
            let exp = poker::ord5_sorted(t, *c);
            let w = words_of_ci(c);
            let r = guard(|| {
                let mut first_bad: Option<(usize, u32)> = None;
                for (pi, p) in perms.iter().enumerate() {
                    let a = engine::apply_perm(&w, p);
                    let bad = fast_all(a, exp);
                    if bad != 0 {
                        first_bad = Some((pi, bad));
                        break;
                    }
                }
                first_bad
            });
            acc.subsets += 1;
            acc.evals += 120 * 6;
            match r {
                Ok(None) => {}
                _ => {
                    acc.fail = slow_subset(c, exp, &perms);
                    if acc.fail.is_none() {
                        let msg = engine::unstable_message(&format!("five-card hand [{}]", card::render_hand(&w)), || {
                            guard(|| perms.iter().all(|p| fast_all(engine::apply_perm(&w, p), exp) == 0)) == Ok(true)
                        });
                        acc.fail = Some(Fail { c: *c, perm: 0, entry: 0, expected: exp, observed: Err(msg) });
                    }
                    return false;
                }
            }
            // observed value of the identity order feeds the histogram (equals exp here)
            acc.hist[(exp as usize).min(7463)] += 1;
            let cat = poker::cat_of_ord(t, exp);
            let route = if cat == poker::CAT_SF || cat == poker::CAT_FLUSH {
                0
            } else if cat == poker::CAT_STRAIGHT || cat == poker::CAT_HIGH {
                1
            } else {
                2
            };
            acc.route[route] += 1;
            if acc.samples.len() < 1 && (c[0] as u32 * 7 + c[1] as u32) % 97 == 3 {
                acc.samples.push((*c, exp));
            }
            true
        },
    );

    if let Some(f) = &acc.fail {
        run.generator("five-subsets x 120 orders x 6 entries", "exhaustive", Some(choose(52, 5) * 720), acc.evals, acc.subsets, "stopped at first failure");
        let case = fail_case(f, &perms);
        let msg = format!(
            "{} on {} returned {:?}, the strength ordinal is {} ({:?})",
            FIVE_ENTRIES[f.entry].0,
            case["cards"].as_str().unwrap_or(""),
            f.observed,
            f.expected,
            poker::class_text(t.keys[f.expected as usize - 1])
        );
        let sig = format!("{}", case["cards"].as_str().unwrap_or(""));
        match &f.observed {
            Err(m) if m.contains("depends on something other than the input") => run.violation("C01.unstable", &sig, case, m)?,
            _ => run.violation("C01.value", &sig, case, &msg)?,
        }
    } else {
        run.generator("five-subsets x 120 orders x 6 entries", "exhaustive", Some(choose(52, 5) * 720), acc.evals, acc.subsets, "");
        run.class("route:flush-table", acc.route[0]);
        run.class("route:five-distinct-ranks-table", acc.route[1]);
        run.class("route:product-search", acc.route[2]);
        for (c, v) in &acc.samples {
            let w = words_of_ci(c);
            run.sample(json!({"cards": card::render_hand(&w), "orders": 120, "entries": 6, "value": v, "class": poker::class_text(t.keys[*v as usize - 1]).1}));
        }
        // consequences, on observed values: every value 1..=7462 produced, with the model's class size
        let mut cats = [0u64; 9];
        for v in 1..=7462usize {
            if acc.hist[v] != t.class_size[v] {
                let case = json!({"value": v, "hands_observed": acc.hist[v], "hands_expected": t.class_size[v]});
                run.violation("C01.surjective", &format!("value={}", v), case, &format!("value {} is produced by {} hands, poker class has {}", v, acc.hist[v], t.class_size[v]))?;
                break;
            }
            cats[poker::cat_of_ord(t, v as u16) as usize] += acc.hist[v] as u64;
        }
        for (i, n) in cats.iter().enumerate() {
            run.class(&format!("category:{}", poker::CAT_NAMES[i]), *n);
        }
        run.extra.insert("values_produced".into(), json!((1..=7462usize).filter(|v| acc.hist[*v] > 0).count()));
        run.exhaustive = true;
        run.exhaustive_note = "the stated domain (all five-card subsets x all 120 slot orders x every five-card entry point) was enumerated completely".into();
    }

    // comparator form: sign(v1 - v2) against direct comparison of rule-based keys (not the ordinal table)
    let n_pairs: u32 = run.tier.pick(200_000, 5_000_000);
    let total = choose(52, 5);
    let strat = (0..total, 0..total, 0usize..120, 0usize..120);
    let counted = std::cell::Cell::new(0u64);
    let distinct = std::cell::RefCell::new(engine::Distinct::new());
    let res = pt::run(run.seed, 0xC01, n_pairs, &strat, |(i1, i2, p1, p2)| {
        let c1 = unrank5(i1);
        let c2 = unrank5(i2);
        counted.set(counted.get() + 1);
        if i1 != i2 && counted.get() <= n_pairs as u64 {
            distinct.borrow_mut().insert(mix2(i1 * 120 + p1 as u64, i2 * 120 + p2 as u64));
        }
        pair_check(&c1, &c2, p1, p2, &perms)
    });
    run.generator("random hand pairs, comparator form", "proptest", None, counted.get().min(n_pairs as u64), distinct.borrow().len(), "sign(v1-v2) vs comparison of rule keys; non-trivial = the two subsets differ; distinct by 64-bit hash of (subset, order, subset, order)");
    if let Err(f) = res {
        let (i1, i2, p1, p2) = f.value;
        let c1 = unrank5(i1);
        let c2 = unrank5(i2);
        let w1 = engine::apply_perm(&words_of_ci(&c1), &perms[p1]);
        let w2 = engine::apply_perm(&words_of_ci(&c2), &perms[p2]);
        let case = json!({"first": hand_json(&w1), "second": hand_json(&w2)});
        let sig = format!("{}|{}", card::render_hand(&w1), card::render_hand(&w2));
        run.violation("C01.compare", &sig, case, &f.reason)?;
    }
    Ok(())
}

fn unrank5(idx: u64) -> [u8; 5] {
    crate::engine::enumerate::unrank::<5>(52, idx)
}

fn pair_check(c1: &[u8; 5], c2: &[u8; 5], p1: usize, p2: usize, perms: &[[u8; 5]]) -> Result<(), String> {
    let w1 = engine::apply_perm(&words_of_ci(c1), &perms[p1]);
    let w2 = engine::apply_perm(&words_of_ci(c2), &perms[p2]);
    let v1 = call(FIVE_ENTRIES[0].1, w1).map_err(|m| format!("panic: {}", m))?;
    let v2 = call(FIVE_ENTRIES[0].1, w2).map_err(|m| format!("panic: {}", m))?;
    let k = |c: &[u8; 5]| {
        let ranks = [c[0] / 4, c[1] / 4, c[2] / 4, c[3] / 4, c[4] / 4].map(|x| x as u32);
        let s0 = c[0] % 4;
        poker::key5(ranks, c.iter().all(|x| x % 4 == s0))
    };
    let (k1, k2) = (k(c1), k(c2));
    // stronger hand = larger key = smaller value
    let want = k2.cmp(&k1);
    let got = v1.cmp(&v2);
    if want != got {
        return Err(format!(
            "{} has value {} and {} has value {}: values compare {:?} but the hands compare {:?} under poker rules",
            card::render_hand(&w1),
            v1,
            card::render_hand(&w2),
            v2,
            got,
            want
        ));
    }
    Ok(())
}

pub fn check_case(clause: &str, case: &Value) -> Result<(), String> {
    if clause.ends_with(".after_disturbance") || clause.ends_with(".concurrent") || clause.ends_with(".concurrent_cold_start") || clause.ends_with(".after_repetition") {
        return replay_after_disturbance(case, check_case);
    }
    let t = poker::tables();
    match clause {
        "C01.value" | "C01.unstable" => {
            let ws = engine::parse_words(&case["words"])?;
            let a: [u32; 5] = arr(&ws)?;
            let cis = cis_of(&ws)?;
            let exp = poker::ord5_slow(t, [cis[0], cis[1], cis[2], cis[3], cis[4]]);
            let name = case["entry"].as_str().ok_or("entry missing")?;
            let f = entry_by_name(&FIVE_ENTRIES, name).ok_or("unknown entry")?;
            let got = call(f, a);
            if got != Ok(exp) {
                return Err(format!("{} on {} returned {:?}, the strength ordinal is {}", name, card::render_hand(&ws), got, exp));
            }
            Ok(())
        }
        "C01.surjective" => {
            let v = case["value"].as_u64().ok_or("value missing")? as u16;
            let mut n = 0u32;
            poker::for_each_subset::<5>(52, |c| {
                let cc = [c[0] as u8, c[1] as u8, c[2] as u8, c[3] as u8, c[4] as u8];
                if call(FIVE_ENTRIES[0].1, words_of_ci(&cc)) == Ok(v) {
                    n += 1;
                }
            });
            let want = if (1..=7462).contains(&v) { t.class_size[v as usize] } else { 0 };
            if n != want {
                return Err(format!("value {} is produced by {} hands, poker class has {}", v, n, want));
            }
            Ok(())
        }
        "C01.after_helper" => {
            let k = case["key"].as_u64().ok_or("key")?;
            let _ = guard(|| Five::find_in_products(k as usize));
            super::multi::check_sequence_case(case, super::multi::Mode::Value)
        }
        "C01.sequence" => super::multi::check_sequence_case(case, super::multi::Mode::Value),
        "C01.compare" => {
            let w1 = engine::parse_words(&case["first"]["words"])?;
            let w2 = engine::parse_words(&case["second"]["words"])?;
            let c1 = cis_of(&w1)?;
            let c2 = cis_of(&w2)?;
            let id = [[0u8, 1, 2, 3, 4]];
            pair_check(&[c1[0], c1[1], c1[2], c1[3], c1[4]], &[c2[0], c2[1], c2[2], c2[3], c2[4]], 0, 0, &id)
        }
        _ => Err(format!("unknown clause {}", clause)),
    }
}
