//! Shared glue between the models and ckc-rs: entry-point tables, case rendering.

use crate::engine::{guard, hex};
use crate::model::card;
use ckc_rs::cards::five::Five;
use ckc_rs::cards::seven::Seven;
use ckc_rs::cards::six::Six;
use ckc_rs::cards::HandRanker;
use serde_json::{json, Value};

pub type Entry<const N: usize> = (&'static str, fn([u32; N]) -> u16);

pub const FIVE_ENTRIES: [Entry<5>; 6] = [
    ("Five::hand_rank_value", |a| Five::from(a).hand_rank_value()),
    ("Five::hand_rank_value_validated", |a| Five::from(a).hand_rank_value_validated()),
    ("evaluate::five_cards", |a| ckc_rs::evaluate::five_cards(a)),
    ("Five::hand_rank().value", |a| Five::from(a).hand_rank().value),
    ("Five::hand_rank_validated().value", |a| Five::from(a).hand_rank_validated().value),
    ("Five::hand_rank_value_and_hand().0", |a| Five::from(a).hand_rank_value_and_hand().0),
];

pub const SIX_ENTRIES: [Entry<6>; 5] = [
    ("Six::hand_rank_value", |a| Six::from(a).hand_rank_value()),
    ("Six::hand_rank_value_validated", |a| Six::from(a).hand_rank_value_validated()),
    ("Six::hand_rank().value", |a| Six::from(a).hand_rank().value),
    ("Six::hand_rank_validated().value", |a| Six::from(a).hand_rank_validated().value),
    ("Six::hand_rank_value_and_hand().0", |a| Six::from(a).hand_rank_value_and_hand().0),
];

pub const SEVEN_ENTRIES: [Entry<7>; 5] = [
    ("Seven::hand_rank_value", |a| Seven::from(a).hand_rank_value()),
    ("Seven::hand_rank_value_validated", |a| Seven::from(a).hand_rank_value_validated()),
    ("Seven::hand_rank().value", |a| Seven::from(a).hand_rank().value),
    ("Seven::hand_rank_validated().value", |a| Seven::from(a).hand_rank_validated().value),
    ("Seven::hand_rank_value_and_hand().0", |a| Seven::from(a).hand_rank_value_and_hand().0),
];

pub fn entry_by_name<const N: usize>(table: &[Entry<N>], name: &str) -> Option<fn([u32; N]) -> u16> {
    table.iter().find(|e| e.0 == name).map(|e| e.1)
}

/// call an entry point under panic capture
pub fn call<const N: usize>(f: fn([u32; N]) -> u16, a: [u32; N]) -> Result<u16, String> {
    guard(|| f(a))
}

pub fn words_of_ci<const N: usize>(c: &[u8; N]) -> [u32; N] {
    let mut w = [0u32; N];
    for i in 0..N {
        w[i] = card::BY_CI[c[i] as usize];
    }
    w
}

/// JSON rendering of a hand: readable cards + exact words
pub fn hand_json(ws: &[u32]) -> Value {
    json!({ "cards": card::render_hand(ws), "words": ws.iter().map(|w| hex(*w)).collect::<Vec<_>>() })
}

pub fn arr<const N: usize>(v: &[u32]) -> Result<[u32; N], String> {
    if v.len() != N {
        return Err(format!("expected {} words, got {}", N, v.len()));
    }
    let mut a = [0u32; N];
    a.copy_from_slice(v);
    Ok(a)
}

/// card indexes (ci) of a hand of distinct real cards, or an error naming the offending slot
pub fn cis_of(ws: &[u32]) -> Result<Vec<u8>, String> {
    let mut v = Vec::new();
    for w in ws {
        match card::ci_of(*w) {
            Some(c) => v.push(c as u8),
            None => return Err(format!("{} is not a card word", hex(*w))),
        }
    }
    let mut s = v.clone();
    s.sort_unstable();
    s.dedup();
    if s.len() != v.len() {
        return Err("repeated card".into());
    }
    Ok(v)
}

/// all permutations of 0..5 in lexicographic order (identity first)
pub fn perms5() -> Vec<[u8; 5]> {
    (0..120).map(crate::engine::perm_from_index::<5>).collect()
}
