//! Shared glue between the models and ckc-rs: entry-point tables, case rendering.

use crate::engine::{guard, hex};
use crate::model::card;
use ckc_rs::cards::five::Five;
use ckc_rs::cards::seven::Seven;
use ckc_rs::cards::six::Six;
use ckc_rs::cards::HandRanker;
use serde_json::{json, Value};

pub type Entry<const N: usize> = (&'static str, fn([u32; N]) -> u16);

pub const FIVE_ENTRIES: [Entry<5>; 6] = [
    ("Five::hand_rank_value", |a| Five::from(a).hand_rank_value()),
    ("Five::hand_rank_value_validated", |a| Five::from(a).hand_rank_value_validated()),
    ("evaluate::five_cards", |a| ckc_rs::evaluate::five_cards(a)),
    ("Five::hand_rank().value", |a| Five::from(a).hand_rank().value),
    ("Five::hand_rank_validated().value", |a| Five::from(a).hand_rank_validated().value),
    ("Five::hand_rank_value_and_hand().0", |a| Five::from(a).hand_rank_value_and_hand().0),
];

pub const SIX_ENTRIES: [Entry<6>; 5] = [
    ("Six::hand_rank_value", |a| Six::from(a).hand_rank_value()),
    ("Six::hand_rank_value_validated", |a| Six::from(a).hand_rank_value_validated()),
    ("Six::hand_rank().value", |a| Six::from(a).hand_rank().value),
    ("Six::hand_rank_validated().value", |a| Six::from(a).hand_rank_validated().value),
    ("Six::hand_rank_value_and_hand().0", |a| Six::from(a).hand_rank_value_and_hand().0),
];

pub const SEVEN_ENTRIES: [Entry<7>; 5] = [
    ("Seven::hand_rank_value", |a| Seven::from(a).hand_rank_value()),
    ("Seven::hand_rank_value_validated", |a| Seven::from(a).hand_rank_value_validated()),
    ("Seven::hand_rank().value", |a| Seven::from(a).hand_rank().value),
    ("Seven::hand_rank_validated().value", |a| Seven::from(a).hand_rank_validated().value),
    ("Seven::hand_rank_value_and_hand().0", |a| Seven::from(a).hand_rank_value_and_hand().0),
];

pub fn entry_by_name<const N: usize>(table: &[Entry<N>], name: &str) -> Option<fn([u32; N]) -> u16> {
    table.iter().find(|e| e.0 == name).map(|e| e.1)
}

/// call an entry point under panic capture
pub fn call<const N: usize>(f: fn([u32; N]) -> u16, a: [u32; N]) -> Result<u16, String> {
    guard(|| f(a))
}

pub fn words_of_ci<const N: usize>(c: &[u8; N]) -> [u32; N] {
    let mut w = [0u32; N];
    for i in 0..N {
        w[i] = card::BY_CI[c[i] as usize];
    }
    w
}

/// JSON rendering of a hand: readable cards + exact words
pub fn hand_json(ws: &[u32]) -> Value {
    json!({ "cards": card::render_hand(ws), "words": ws.iter().map(|w| hex(*w)).collect::<Vec<_>>() })
}

pub fn arr<const N: usize>(v: &[u32]) -> Result<[u32; N], String> {
    if v.len() != N {
        return Err(format!("expected {} words, got {}", N, v.len()));
    }
    let mut a = [0u32; N];
    a.copy_from_slice(v);
    Ok(a)
}

/// card indexes (ci) of a hand of distinct real cards, or an error naming the offending slot
pub fn cis_of(ws: &[u32]) -> Result<Vec<u8>, String> {
    let mut v = Vec::new();
    for w in ws {
        match card::ci_of(*w) {
            Some(c) => v.push(c as u8),
            None => return Err(format!("{} is not a card word", hex(*w))),
        }
    }
    let mut s = v.clone();
    s.sort_unstable();
    s.dedup();
    if s.len() != v.len() {
        return Err("repeated card".into());
    }
    Ok(v)
}

/// all permutations of 0..5 in lexicographic order (identity first)
pub fn perms5() -> Vec<[u8; 5]> {
    (0..120).map(crate::engine::perm_from_index::<5>).collect()
}

// ---------------------------------------------------------------------------------------------
// disturbance menu: a tour of the crate's public API with benign and hostile inputs. Used between
// the calls of a property's own sequence checks: state written by one public function and read by
// another (a shared scratch buffer, a lazily built table, a sticky flag) shows up as a check that
// fails only after a particular disturbance.

use ckc_rs::cards::binary_card::{BinaryCard, BC64};
use ckc_rs::cards::four::Four;
use ckc_rs::cards::three::Three;
use ckc_rs::cards::two::Two;
use ckc_rs::cards::{HandValidator, Permutator};
use ckc_rs::hand_rank::HandRank;
use ckc_rs::{CKCNumber, CardNumber, CardRank, CardSuit, PokerCard, Shifty};
use std::hint::black_box as bb;

fn d_words() -> [[u32; 7]; 6] {
    let d = card::DECK;
    [
        [d[0], d[1], d[2], d[3], d[4], d[51], d[37]],                        // royal flush + 2
        [d[12], d[25], d[38], d[51], d[11], d[24], d[37]],                   // four deuces, treys
        [d[0], 0, d[14], 0, d[28], d[42], 0],                                // blanks
        [d[5], d[5], d[5], d[6], d[7], d[8], d[9]],                          // repeats
        [d[0] | card::QUADS, u32::MAX, 1, d[3] ^ 1, d[4] & !0xF000, 0x8000_0000, d[51] | card::PAIR], // hostile words
        [d[51], d[50], d[49], d[48], d[39], d[26], d[13]],                   // low cards / wheel-ish
    ]
}

pub fn disturbance_menu() -> Vec<(&'static str, fn())> {
    fn guarded(f: impl FnOnce()) {
        // a disturbance may legitimately panic on hostile words (unvalidated ranking of arbitrary
        // words is outside every property's domain): swallow it
        let _ = guard(f);
    }
    vec![
        ("rank fives (valid, blank, repeated)", || {
            for w in d_words().iter().take(4) {
                let a = [w[0], w[1], w[2], w[3], w[4]];
                guarded(|| {
                    let f = Five::from(a);
                    bb((f.hand_rank_value(), f.hand_rank_value_validated(), f.hand_rank(), f.hand_rank_validated(), f.hand_rank_value_and_hand(), ckc_rs::evaluate::five_cards(a)));
                });
            }
        }),
        ("rank sixes and sevens (valid, blank, repeated)", || {
            for w in d_words().iter().take(4) {
                guarded(|| {
                    let s = Six::from([w[0], w[1], w[2], w[3], w[4], w[5]]);
                    bb((s.hand_rank_value(), s.hand_rank_value_validated(), s.hand_rank_value_and_hand()));
                    let s = Seven::from(*w);
                    bb((s.hand_rank_value(), s.hand_rank_value_validated(), s.hand_rank_value_and_hand(), s.hand_rank()));
                });
            }
        }),
        ("validated ranking of hostile words", || {
            let w = d_words()[4];
            guarded(|| {
                bb((Five::from([w[0], w[1], w[2], w[3], w[4]]).hand_rank_value_validated(), Six::from([w[0], w[1], w[2], w[3], w[4], w[5]]).hand_rank_value_validated(), Seven::from(w).hand_rank_value_validated()));
            });
        }),
        ("validators on every size", || {
            for w in d_words() {
                guarded(|| {
                    bb((Two::from([w[0], w[1]]).is_valid(), Three::from([w[0], w[1], w[2]]).is_valid(), Four::from([w[0], w[1], w[2], w[3]]).is_valid()));
                    bb((Five::from([w[0], w[1], w[2], w[3], w[4]]).is_valid(), Six::from([w[0], w[1], w[2], w[3], w[4], w[5]]).is_corrupt(), Seven::from(w).are_unique(), Seven::from(w).contain_blank()));
                });
            }
        }),
        ("sort every size", || {
            for w in d_words() {
                guarded(|| {
                    bb((Two::from([w[0], w[1]]).sort(), Three::from([w[0], w[1], w[2]]).sort(), Four::from([w[0], w[1], w[2], w[3]]).sort(), Five::from([w[0], w[1], w[2], w[3], w[4]]).sort(), Six::from([w[0], w[1], w[2], w[3], w[4], w[5]]).sort()));
                    let mut s = Seven::from(w);
                    s.sort_in_place();
                    bb(s);
                });
            }
        }),
        ("setters and selection", || {
            guarded(|| {
                let w = d_words()[0];
                let mut s = Seven::from(w);
                s.set_first(w[6]);
                s.set_seventh(0);
                s.set_forth(u32::MAX);
                bb((s.to_arr(), s.five_from_permutation([0, 2, 4, 5, 6]), Six::from([w[0], w[1], w[2], w[3], w[4], w[5]]).five_from_permutation([5, 4, 3, 2, 1])));
                let mut f = Five::from([w[0], w[1], w[2], w[3], w[4]]);
                f.set_third(w[5] | card::TRIPS);
                f.set_fifth(0);
                bb(f.to_arr());
            });
        }),
        ("shift suits", || {
            for w in d_words() {
                guarded(|| {
                    bb((w[0].shift_suit(), Two::from([w[0], w[1]]).shift_suit(), Five::from([w[0], w[1], w[2], w[3], w[4]]).shift_suit(), Seven::from(w).shift_suit()));
                });
            }
        }),
        ("predicates and product search", || {
            for w in d_words().iter().take(4) {
                guarded(|| {
                    let f = Five::from([w[0], w[1], w[2], w[3], w[4]]);
                    #[allow(deprecated)]
                    bb((f.is_flush(), f.is_straight(), f.is_straight_flush(), f.is_wheel(), f.or_rank_bits(), f.and_bits(), f.multiply_primes(), ckc_rs::evaluate::is_flush(f.to_arr()), ckc_rs::evaluate::or_rank_bits(f.to_arr())));
                });
            }
            for k in [0usize, 47, 48, 104_553_157, usize::MAX] {
                guarded(|| {
                    bb(Five::find_in_products(k));
                });
            }
        }),
        ("card construction, filter, accessors, flags", || {
            guarded(|| {
                bb((CKCNumber::create(CardRank::ACE, CardSuit::SPADES), CKCNumber::create(CardRank::TWO, CardSuit::CLUBS), CKCNumber::create(CardRank::BLANK, CardSuit::HEARTS), CKCNumber::create(CardRank::KING, CardSuit::BLANK)));
                for w in d_words()[4] {
                    bb((CardNumber::filter(w), w.get_card_rank(), w.get_card_suit(), w.get_rank_prime(), w.get_suit_bit(), w.get_rank_char(), w.get_suit_char(), w.get_chen_points(), w.flag_as_pair(), w.flag_as_quads().strip_multiples_flags()));
                }
            });
        }),
        ("hand rank conversion and comparison", || {
            guarded(|| {
                let r: Vec<HandRank> = [0u16, 1, 10, 11, 166, 1599, 1600, 7462, 7463, 8193, 16385, 65535].iter().map(|v| HandRank::from(*v)).collect();
                for a in &r {
                    for b in &r {
                        bb((a.cmp(b), a == b, a.is_invalid(), a.is_a_valid_hand_rank()));
                    }
                }
                bb(HandRank::default());
            });
        }),
        ("chen scores", || {
            guarded(|| {
                let d = card::DECK;
                for (a, b) in [(d[0], d[13]), (d[3], d[8]), (d[0], d[1]), (d[16], d[5]), (d[51], d[45]), (d[9], d[20])] {
                    let t = Two::new(a, b);
                    bb((t.chen_formula(), t.get_gap(), t.high_card(), t.is_suited_connector(), t.is_pocket_pair()));
                }
            });
        }),
        ("bit-set conversions and set operations", || {
            guarded(|| {
                for w in d_words()[4].iter().chain(d_words()[0].iter()) {
                    bb(BinaryCard::from_ckc(*w));
                }
                for x in [0u64, 1, 1 << 51, 1 << 52, 3, (1 << 52) - 1, u64::MAX, 0x8000000000001] {
                    let mut s = x;
                    bb((CKCNumber::from_binary_card(x), x.number_of_cards(), BC64::is_valid(&x), x.has(1), x.fold_in(6), s.peel(), s.peel(), Two::try_from(x).is_ok()));
                }
                let w = d_words()[3];
                bb((BinaryCard::from_seven(Seven::from(w)), BinaryCard::from_two(Two::from([w[0], w[1]])), BinaryCard::from_index("AS KS zz 2c")));
            });
        }),
        ("deck access", || {
            guarded(|| {
                for i in [0usize, 51, 52, 63, 64, 4096, 1 << 32, usize::MAX] {
                    bb(Deck::get(i));
                }
                bb(ckc_rs::deck::POKER_DECK.arr());
            });
        }),
        ("text parsing", || {
            guarded(|| {
                for t in ["AS", "2c", "0♡", "K", "", "♠A", "\u{212A}S", "xx", "AS KS QS JS TS 9S 8S", "AS\u{b}KS", "  ah\tkd "] {
                    bb((CKCNumber::from_index(t), ckc_rs::parse::get_rank_and_suit(t), ckc_rs::parse::five_from_index(t), BinaryCard::from_index(t)));
                }
                bb((Two::try_from("AS KS").is_ok(), Five::try_from("AS KS QS JS").is_ok(), Seven::try_from("AS KS QS JS TS 9S 8S").is_ok(), Three::try_from("2c 3c").is_ok(), Four::try_from("2c 3c 4c 5c").is_ok(), Six::try_from("").is_ok()));
                bb((CardRank::from_char('k'), CardSuit::from_char('♧'), CardRank::from_char('\u{212A}')));
            });
        }),
    ]
}

use ckc_rs::deck::Deck;

/// For every disturbance d and every item b: run d, then the full check on b (one thread).
/// Returns (disturbance name, item index, message) for the first failure.
pub fn after_disturbances<T>(items: &[T], check: &dyn Fn(&T) -> Result<(), String>) -> Option<(&'static str, usize, String)> {
    let menu = disturbance_menu();
    for (name, d) in &menu {
        for (i, b) in items.iter().enumerate() {
            d();
            match guard(|| check(b)) {
                Ok(Ok(())) => {}
                Ok(Err(m)) => return Some((name, i, m)),
                Err(p) => return Some((name, i, format!("panicked: {}", p))),
            }
        }
    }
    None
}

/// run the named disturbance (replay)
pub fn run_disturbance(name: &str) {
    for (n, d) in disturbance_menu() {
        if n == name {
            d();
        }
    }
}

use crate::engine::{PResult, Run};

/// counts of the exact-count children: both sides of 2^8 and 2^16
pub const EXACT_COUNTS: [usize; 6] = [255, 256, 257, 65_535, 65_536, 65_537];

/// spread of starting items for the single-threaded children: ends, middle, and around every power of
/// two; short lists: every item
pub fn cold_starts(len: usize) -> Vec<usize> {
    let mut starts: Vec<usize> = vec![0, len - 1, len / 2, 1, len / 3, 2 * len / 3];
    let mut p = 2usize;
    while p < len {
        starts.extend([p, p + 1, p - 1]);
        p *= 2;
    }
    starts.retain(|x| *x < len);
    if len <= 72 {
        // short lists: every item gets its turn as the first call
        starts = (0..len).collect();
    }
    starts
}

/// Property-level wrapper of `after_disturbances`: records the generator and reports a failure as
/// `<ID>.after_disturbance` with a replayable case {disturbance, clause, case}. Afterwards the same
/// items are checked from 8 threads at once (each thread walks the items from its own offset and
/// runs a disturbance now and then): a result that depends on what other threads are doing is
/// reported as `<ID>.concurrent`.
pub fn disturbance_pass<T: Sync>(
    run: &mut Run,
    items: &[T],
    check: &(dyn Fn(&T) -> Result<(), String> + Sync),
    to_case: &dyn Fn(&T) -> (String, Value, String),
) -> PResult {
    let concurrent_only = matches!(run.cold, Some(c) if c >= 2000);
    if let Some(code) = run.cold {
        if code >= 5000 {
            // exact-count child (first stress pass only, one thread): one item is checked exactly c times as
            // the first thing this process ever does, then every *other* item once, nearest first
            if run.pass_counter != 0 {
                run.pass_counter += 1;
                return Ok(());
            }
            let len = items.len();
            let starts = cold_starts(len);
            let j = code - 5000;
            let c = EXACT_COUNTS[j % 6];
            let x = starts[(j / 6) % starts.len()];
            let mut fail: Option<(usize, String)> = None;
            for n in 0..c {
                match guard(|| check(&items[x])) {
                    Ok(Ok(())) => {}
                    Ok(Err(m)) => {
                        fail = Some((x, format!("use number {} of the item itself: {}", n + 1, m)));
                        break;
                    }
                    Err(p) => {
                        fail = Some((x, format!("use number {} of the item itself panicked: {}", n + 1, p)));
                        break;
                    }
                }
            }
            if fail.is_none() {
                let order = (1..len).flat_map(|d| [x.checked_add(d).filter(|i| *i < len), x.checked_sub(d)]).flatten().take(4000);
                for i in order {
                    match guard(|| check(&items[i])) {
                        Ok(Ok(())) => {}
                        Ok(Err(m)) => {
                            fail = Some((i, m));
                            break;
                        }
                        Err(p) => {
                            fail = Some((i, format!("panicked: {}", p)));
                            break;
                        }
                    }
                }
            }
            match fail {
                None => println!("COLDRESULT ok {}", c + len.min(4001) - 1),
                Some((i, m)) => {
                    let (clause, case, sig) = to_case(&items[i]);
                    let (_, rep_case, rep_sig) = to_case(&items[x]);
                    println!("COLDRESULT fail {}", serde_json::to_string(&json!({"cold_code": code, "profile": crate::engine::profile(), "clause": clause, "case": case, "sig": format!("{} x {} ; {}", rep_sig, c, sig), "repeat": rep_case, "times": c, "message": format!("single-threaded, fresh process, {} checked exactly {} times in a row first: {}", rep_sig, c, m)})).unwrap());
                }
            }
            std::process::exit(0);
        }
        if code >= 2000 {
            // replay of an `<ID>.concurrent` case: only the concurrent phase of stress pass (code - 2000)
            if run.pass_counter != code - 2000 {
                run.pass_counter += 1;
                return Ok(());
            }
        } else if code >= 1000 {
            // single-threaded cold start on the first stress pass: item `start` first, then every item
            // ascending, then descending
            if run.pass_counter != 0 {
                run.pass_counter += 1;
                return Ok(());
            }
            let len = items.len();
            let r = code - 1000;
            let starts = cold_starts(len);
            let start = starts[r % starts.len()];
            let descending_first = r >= starts.len();
            let order: Vec<usize> = if descending_first { (0..len).rev().chain(0..len).collect() } else { (0..len).chain((0..len).rev()).collect() };
            let mut fail: Option<(usize, String)> = None;
            for i in std::iter::once(start).chain(order.into_iter()) {
                match guard(|| check(&items[i])) {
                    Ok(Ok(())) => {}
                    Ok(Err(m)) => {
                        fail = Some((i, m));
                        break;
                    }
                    Err(p) => {
                        fail = Some((i, format!("panicked: {}", p)));
                        break;
                    }
                }
            }
            match fail {
                None => println!("COLDRESULT ok"),
                Some((i, m)) => {
                    let (clause, case, sig) = to_case(&items[i]);
                    let (_, first_case, first_sig) = to_case(&items[start]);
                    println!("COLDRESULT fail {}", serde_json::to_string(&json!({"cold_code": code, "clause": clause, "case": case, "sig": format!("first call {} ; {}", first_sig, sig), "first_call": first_case, "message": format!("single-threaded, the first call of the process was on {}: {}", first_sig, m)})).unwrap());
                }
            }
            std::process::exit(0);
        }
        if code < 1000 {
        let (k, rep) = (code % 16, code / 16);
        if run.pass_counter != k {
            run.pass_counter += 1;
            return Ok(());
        }
        // cold start: 16 threads released together, their first calls into the crate are the checks
        // more threads than cores, and thread k delays its first call by k * 2^rep pause instructions:
        // the relative offsets between first calls sweep from nanoseconds to microseconds
        const T: usize = 48;
        let len = items.len();
        // spin start: every thread announces itself and then spins on a flag, so that all of them
        // enter the crate within a few nanoseconds of each other (a Barrier wakes them one by one)
        let ready = std::sync::atomic::AtomicUsize::new(0);
        let go = std::sync::atomic::AtomicBool::new(false);
        let barrier = std::sync::Barrier::new(T);
        let first: std::sync::Mutex<Option<(usize, String)>> = std::sync::Mutex::new(None);
        std::thread::scope(|sc| {
            for k in 0..T {
                let (first, ready, go, barrier) = (&first, &ready, &go, &barrier);
                sc.spawn(move || {
                    if rep % 4 == 3 {
                        // staggered release by the OS (threads wake one after the other)
                        barrier.wait();
                    } else {
                        // simultaneous release
                        ready.fetch_add(1, std::sync::atomic::Ordering::SeqCst);
                        while !go.load(std::sync::atomic::Ordering::Acquire) {
                            std::hint::spin_loop();
                        }
                        for _ in 0..(k << (rep % 8)) {
                            std::hint::spin_loop();
                        }
                    }
                    for j in 0..len.min(4000) {
                        // all threads start on the same items (maximum contention on first use), then spread out
                        let i = if j < 48 { (rep * 7 + j * 5) % len } else { (j + (k % 16) * len / 16) % len };
                        let msg = match guard(|| check(&items[i])) {
                            Ok(Ok(())) => continue,
                            Ok(Err(m)) => m,
                            Err(p) => format!("panicked: {}", p),
                        };
                        let mut g = first.lock().unwrap();
                        if g.is_none() {
                            *g = Some((i, msg));
                        }
                        return;
                    }
                });
            }
            if rep % 4 != 3 {
                while ready.load(std::sync::atomic::Ordering::SeqCst) < T {
                    std::hint::spin_loop();
                }
                go.store(true, std::sync::atomic::Ordering::Release);
            }
        });
        match first.into_inner().unwrap() {
            None => println!("COLDRESULT ok"),
            Some((i, m)) => {
                let (clause, case, sig) = to_case(&items[i]);
                println!("COLDRESULT fail {}", serde_json::to_string(&json!({"cold_code": code, "clause": clause, "case": case, "sig": sig, "message": m})).unwrap());
            }
        }
        std::process::exit(0);
            }
    }
    if run.is_twin() {
        return Ok(());
    }
    // stress passes are numbered (for replays of concurrent cases)
    let this_pass = if run.cold.is_some() { run.pass_counter } else { run.pass_counter += 1; run.pass_counter - 1 };
    if run.cold.is_none() && this_pass == 0 {
        // exact-count histories need processes in which nothing has been asked before
        let codes: Vec<usize> = (0..EXACT_COUNTS.len() * cold_starts(items.len()).len()).map(|j| 5000 + j).collect();
        let (ran, calls, bad) = run.fresh_children(&codes, true);
        run.generator("exact-count histories, a fresh single-threaded process each: one item checked exactly 2^8-1 .. 2^8+1 / 2^16-1 .. 2^16+1 times, then every other item", "call-count soak", None, calls, 0, &format!("{} of {} child processes reported; repeated items: ends, middle and around every power of two of the item list (every item of a short list)", ran, codes.len()));
        if let Some((_, v)) = bad {
            let id = run.id.clone();
            let sig = v["sig"].as_str().unwrap_or("").to_string();
            let msg = v["message"].as_str().unwrap_or("").to_string();
            return run.violation(&format!("{}.after_repetition", id), &sig, json!({"cold_code": v["cold_code"], "profile": v["profile"], "clause": v["clause"], "case": v["case"], "repeat": v["repeat"], "times": v["times"]}), &msg);
        }
    }
    if !concurrent_only {
    let menu_len = disturbance_menu().len() as u64;
    let n = items.len() as u64 * menu_len;
    let hit = after_disturbances(items, &|t| check(t));
    run.generator(
        "each item checked right after each API disturbance",
        "exhaustive over (disturbance, item) (histories across functions)",
        Some(n),
        n,
        n,
        "14 disturbances touring the public API (ranking, validation, sorting, setters, shifting, predicates, construction, rank conversion, Chen, bit-sets, deck, parsing) with benign and hostile inputs; then the property's own oracle on the item",
    );
    if let Some((name, i, m)) = hit {
        let (clause, case, sig) = to_case(&items[i]);
        let id = run.id.clone();
        return run.violation(&format!("{}.after_disturbance", id), &format!("{} ; {}", name, sig), json!({"disturbance": name, "clause": clause, "case": case}), &format!("right after the calls of the disturbance '{}': {}", name, m));
    }
    // repetition: the same item over and over, then every item once
    {
        let len = items.len();
        let picks: Vec<(usize, usize)> = [0usize, len / 7, len / 3, len / 2, (2 * len) / 3, len - 1].iter().enumerate().map(|(pi, i)| ((*i).min(len - 1), if pi < 3 { 66_000 } else { 1100 })).collect();
        repetition_soak(run, items, &picks, check, to_case)?;
    }
    }
    // concurrent phase
    const THREADS: usize = 8;
    let len = items.len();
    let rounds = if len < 2000 { 4 } else { 1 };
    let first: std::sync::Mutex<Option<(usize, String)>> = std::sync::Mutex::new(None);
    std::thread::scope(|sc| {
        for k in 0..THREADS {
            let first = &first;
            sc.spawn(move || {
                let menu = disturbance_menu();
                for r in 0..rounds {
                    for j in 0..len {
                        if j % 64 == 0 && first.lock().unwrap().is_some() {
                            return;
                        }
                        let i = (j + k * len / THREADS + r * 7) % len;
                        if (j + k) % 24 == 0 {
                            (menu[(j / 24 + k) % menu.len()].1)();
                        }
                        let res = guard(|| check(&items[i]));
                        let msg = match res {
                            Ok(Ok(())) => continue,
                            Ok(Err(m)) => m,
                            Err(p) => format!("panicked: {}", p),
                        };
                        let mut g = first.lock().unwrap();
                        if g.is_none() {
                            *g = Some((i, msg));
                        }
                        return;
                    }
                }
            });
        }
    });
    // hot sets: all threads hammer the same few items over and over (a race on one memo line, an
    // entry that is only served from its third request)
    // small sets (64 items) for contention on single items, large sets (512) so that several items
    // of a set share whatever the code under test hashes them into
    let plan: Vec<(usize, usize, usize)> = if len >= 2000 { vec![(64, 100, 6), (512, 40, 3)] } else { vec![(64usize.min(len), 100, 12usize.min(len))] };
    let mut hot_total = 0usize;
    for (hot_size, hot_rounds, n_sets) in plan {
    hot_total += THREADS * hot_rounds * hot_size * n_sets;
    if first.lock().unwrap().is_none() {
        for set in 0..n_sets {
            let hot: Vec<usize> = (0..hot_size).map(|j| (set * 9973 + j * (len / hot_size + 1) + j * j) % len).collect();
            std::thread::scope(|sc| {
                for k in 0..THREADS {
                    let (first, hot) = (&first, &hot);
                    sc.spawn(move || {
                        for r in 0..hot_rounds {
                            for j in 0..hot.len() {
                                let i = hot[(j * (2 * k + 1) + r * (k + 3)) % hot.len()];
                                let msg = match guard(|| check(&items[i])) {
                                    Ok(Ok(())) => continue,
                                    Ok(Err(m)) => m,
                                    Err(p) => format!("panicked: {}", p),
                                };
                                let mut g = first.lock().unwrap();
                                if g.is_none() {
                                    *g = Some((i, msg));
                                }
                                return;
                            }
                            if r % 32 == 0 && first.lock().unwrap().is_some() {
                                return;
                            }
                        }
                    });
                }
            });
            if first.lock().unwrap().is_some() {
                break;
            }
        }
    }
    }
    if concurrent_only {
        match first.into_inner().unwrap() {
            None => println!("COLDRESULT ok"),
            Some((i, m)) => {
                let (clause, case, sig) = to_case(&items[i]);
                println!("COLDRESULT fail {}", serde_json::to_string(&json!({"cold_code": 2000 + this_pass, "clause": clause, "case": case, "sig": sig, "message": format!("while 8 threads were calling the API at the same time: {}", m)})).unwrap());
            }
        }
        std::process::exit(0);
    }
    let total = (THREADS * rounds * len + hot_total) as u64;
    run.generator("items checked from 8 threads at once", "concurrent stress (not schedule-controlled)", None, total, total, "each thread walks the items from its own offset and runs an API disturbance every 24 checks; then hot sets (64 items x 100 rounds; for large item lists also 512 items x 40 rounds) are hammered by all threads in different orders; a property-based harness does not own the schedule, so this finds races only with the probability of the interleaving");
    if let Some((i, m)) = first.into_inner().unwrap() {
        let (clause, case, sig) = to_case(&items[i]);
        let id = run.id.clone();
        let alone = check(&items[i]);
        let note = if alone.is_ok() { " — the same check passes when repeated on one thread: the result depends on what other threads are doing (the replay re-runs this concurrent phase in a child process, up to 12 times)" } else { "" };
        return run.violation(&format!("{}.concurrent", id), &sig, json!({"clause": clause, "case": case, "cold_code": 2000 + this_pass, "profile": crate::engine::profile()}), &format!("while 8 threads were calling the API at the same time: {}{}", m, note));
    }
    Ok(())
}

/// Repetition soak: each picked item is checked `times` times in a row (every call checked), then
/// every item once: hit counters that overflow into the payload or into a neighbouring key, entries
/// that change after the N-th hit. Reported as `<ID>.after_repetition`.
pub fn repetition_soak<T: Sync>(
    run: &mut Run,
    items: &[T],
    picks: &[(usize, usize)],
    check: &(dyn Fn(&T) -> Result<(), String> + Sync),
    to_case: &dyn Fn(&T) -> (String, Value, String),
) -> PResult {
    if run.is_twin() {
        return Ok(());
    }
    let mut cnt = 0u64;
    let mut bad: Option<(usize, usize, usize, String)> = None;
    'outer: for &(i, n) in picks.iter() {
        for r in 0..n {
            cnt += 1;
            match guard(|| check(&items[i])) {
                Ok(Ok(())) => {}
                Ok(Err(m)) => {
                    bad = Some((i, i, r, m));
                    break 'outer;
                }
                Err(p) => {
                    bad = Some((i, i, r, format!("panicked: {}", p)));
                    break 'outer;
                }
            }
        }
        for (j, b) in items.iter().enumerate() {
            cnt += 1;
            match guard(|| check(b)) {
                Ok(Ok(())) => {}
                Ok(Err(m)) => {
                    bad = Some((i, j, n, m));
                    break 'outer;
                }
                Err(p) => {
                    bad = Some((i, j, n, format!("panicked: {}", p)));
                    break 'outer;
                }
            }
        }
    }
    run.generator(&format!("{} items checked many times in a row (up to {}), each followed by a pass over every item", picks.len(), picks.iter().map(|p| p.1).max().unwrap_or(0)), "repetition soak (histories)", Some(cnt), cnt, cnt, "hit counters, entries that change after N hits");
    if let Some((i, j, r, m)) = bad {
        let (clause, case, sig) = to_case(&items[j]);
        let (_, rep_case, rep_sig) = to_case(&items[i]);
        let id = run.id.clone();
        return run.violation(&format!("{}.after_repetition", id), &format!("{} x{} ; {}", rep_sig, r, sig), json!({"repeat": rep_case, "times": r, "clause": clause, "case": case}), &format!("after the item {} had been checked {} times in a row: {}", rep_sig, r, m));
    }
    Ok(())
}

/// replay of an `<ID>.after_disturbance` case
pub fn replay_after_disturbance(case: &Value, check_case: fn(&str, &Value) -> Result<(), String>) -> Result<(), String> {
    // a cold-start case is replayed the way it was found: the same fresh child process (same build
    // profile, same code = same stress pass, same first items / offsets); a single-threaded child is
    // deterministic, a multi-threaded one is tried up to 12 times
    if let Some(code) = case.get("cold_code").and_then(|c| c.as_u64()) {
        let id = case["clause"].as_str().unwrap_or("").split('.').next().unwrap_or("").to_string();
        let prof = case["profile"].as_str().unwrap_or("checked");
        let root = crate::engine::verif_root();
        let bin = crate::engine::twin_binary(&root, prof);
        let tries = if (1000..2000).contains(&code) || code >= 5000 { 1 } else { 12 };
        for _ in 0..tries {
            let out = std::process::Command::new(&bin).arg(&id).arg("--cold").arg(format!("{}", code)).env("VERIF_ROOT", &root).stderr(std::process::Stdio::null()).output().map_err(|e| format!("cannot run {}: {}", bin.display(), e))?;
            let text = String::from_utf8_lossy(&out.stdout).to_string();
            for line in text.lines() {
                if let Some(js) = line.strip_prefix("COLDRESULT fail ") {
                    let v: Value = serde_json::from_str(js).unwrap_or(Value::Null);
                    return Err(format!("in a fresh {} child process (cold code {}): {}", prof, code, v["message"].as_str().unwrap_or("")));
                }
            }
        }
        return Ok(());
    }
    // also used for `<ID>.concurrent` cases (no disturbance recorded: the single-thread check of the item)
    run_disturbance(case["disturbance"].as_str().unwrap_or(""));
    if let Some(rep) = case.get("repeat") {
        // `<ID>.after_repetition`: the recorded item is checked the recorded number of times first
        let times = case["times"].as_u64().unwrap_or(0);
        for _ in 0..times {
            check_case(case["clause"].as_str().unwrap_or(""), rep)?;
        }
    }
    if let Some(fc) = case.get("first_call") {
        if !fc.is_null() {
            // single-threaded cold-start case: the recorded first call comes first (a replay process is fresh)
            let _ = check_case(case["clause"].as_str().unwrap_or(""), fc);
        }
    }
    check_case(case["clause"].as_str().unwrap_or(""), &case["case"])
}

/// Call-count soak: `step(n)` is called for n in 0..total (split over 8 threads by ranges), each call
/// checked; the first failure is reported as `<ID>.soak` (replayed single-threaded up to that n).
pub fn count_soak(run: &mut Run, what: &str, total: u64, step: &(dyn Fn(u64) -> Result<(), String> + Sync)) -> PResult {
    if run.is_twin() {
        return Ok(());
    }
    use rayon::prelude::*;
    const PARTS: u64 = 8;
    let per = total / PARTS + 1;
    let bad: Option<(u64, String)> = (0..PARTS).into_par_iter().find_map_any(|k| {
        for n in k * per..(k + 1) * per {
            match guard(|| step(n)) {
                Ok(Ok(())) => {}
                Ok(Err(m)) => return Some((n, m)),
                Err(p) => return Some((n, format!("panicked: {}", p))),
            }
        }
        None
    });
    run.generator(&format!("call-count soak: {}", what), "call-count soak", None, per * PARTS, 0, "every call checked; behaviour that depends on the number of calls made in the process (counters that wrap or saturate, periodic maintenance of a cache)");
    if let Some((n, m)) = bad {
        let id = run.id.clone();
        return run.violation(&format!("{}.soak", id), &format!("call {}", n), json!({"calls": n + 1}), &format!("call number {} (of about {} made by 8 threads) of the soak '{}': {}", n, per * PARTS, what, m));
    }
    Ok(())
}

/// replay of an `<ID>.soak` case: the same steps on one thread
pub fn replay_soak(case: &Value, step: &dyn Fn(u64) -> Result<(), String>) -> Result<(), String> {
    let calls = case["calls"].as_u64().unwrap_or(1 << 24).min(1 << 33);
    for n in 0..calls {
        step(n).map_err(|m| format!("call {}: {}", n, m))?;
    }
    Ok(())
}
