//! Deterministic parallel enumerators. Every enumerator splits the domain into tasks with a
//! fixed order; accumulators are merged in task order (left before right), and once a task has
//! failed only tasks *before* it keep running, so the failure reported is the one of the lowest
//! task — independent of scheduling.

use rayon::prelude::*;
use std::sync::atomic::{AtomicUsize, Ordering};

pub trait Acc: Send {
    /// merge `other` (from a later task) into self
    fn merge(&mut self, other: Self);
    fn failed(&self) -> bool;
}

/// All K-tuples over 0..n with c0 < c1 < … (strict) or c0 <= c1 <= … (multisets), ascending
/// lexicographic. `f` returns false to abort its task (after recording a failure in the Acc).
pub fn par_tuples<const K: usize, A: Acc>(
    n: u8,
    strict: bool,
    init: impl Fn() -> A + Sync + Send,
    f: impl Fn(&mut A, &[u8; K]) -> bool + Sync + Send,
) -> A {
    assert!(K >= 3);
    let step = if strict { 1u8 } else { 0u8 };
    let mut prefixes: Vec<(u8, u8)> = Vec::new();
    for a in 0..n {
        for b in (a + step)..n {
            prefixes.push((a, b));
        }
    }
    let min_fail = AtomicUsize::new(usize::MAX);
    let run_task = |ti: usize, (a, b): (u8, u8)| -> A {
        let mut acc = init();
        if ti > min_fail.load(Ordering::Relaxed) {
            return acc;
        }
        let mut c = [0u8; K];
        c[0] = a;
        c[1] = b;
        // first suffix
        let mut ok = true;
        for j in 2..K {
            let v = c[j - 1] as u16 + step as u16;
            if v >= n as u16 {
                ok = false;
                break;
            }
            c[j] = v as u8;
        }
        if !ok {
            return acc;
        }
        loop {
            if !f(&mut acc, &c) {
                min_fail.fetch_min(ti, Ordering::Relaxed);
                return acc;
            }
            // advance suffix odometer
            let mut i = K;
            loop {
                if i == 2 {
                    return acc;
                }
                i -= 1;
                // maximum value position i may take
                let max = if strict { n as usize - (K - i) } else { n as usize - 1 };
                if (c[i] as usize) < max {
                    break;
                }
            }
            c[i] += 1;
            for j in i + 1..K {
                c[j] = c[j - 1] + step;
            }
        }
    };
    let accs: Vec<A> = prefixes.par_iter().enumerate().map(|(ti, p)| run_task(ti, *p)).collect();
    let mut it = accs.into_iter();
    let mut total = it.next().unwrap_or_else(&init);
    for a in it {
        if total.failed() {
            break;
        }
        total.merge(a);
    }
    total
}

/// 0..total split into `chunk`-sized ranges, processed in parallel, merged in order.
pub fn par_range<A: Acc>(
    total: u64,
    chunk: u64,
    init: impl Fn() -> A + Sync + Send,
    f: impl Fn(&mut A, u64, u64) -> bool + Sync + Send,
) -> A {
    let n_chunks = ((total + chunk - 1) / chunk) as usize;
    let min_fail = AtomicUsize::new(usize::MAX);
    let accs: Vec<A> = (0..n_chunks)
        .into_par_iter()
        .map(|ci| {
            let mut acc = init();
            if ci > min_fail.load(Ordering::Relaxed) {
                return acc;
            }
            let lo = ci as u64 * chunk;
            let hi = (lo + chunk).min(total);
            if !f(&mut acc, lo, hi) {
                min_fail.fetch_min(ci, Ordering::Relaxed);
            }
            acc
        })
        .collect();
    let mut it = accs.into_iter();
    let mut tot = it.next().unwrap_or_else(&init);
    for a in it {
        if tot.failed() {
            break;
        }
        tot.merge(a);
    }
    tot
}

pub const fn choose(n: u64, k: u64) -> u64 {
    let mut r = 1u64;
    let mut i = 0;
    while i < k {
        r = r * (n - i) / (i + 1);
        i += 1;
    }
    r
}

/// number of multisets of size k over n symbols
pub const fn multichoose(n: u64, k: u64) -> u64 {
    choose(n + k - 1, k)
}

/// idx-th K-subset of 0..n in ascending lexicographic order
pub fn unrank<const K: usize>(n: u64, mut idx: u64) -> [u8; K] {
    let mut out = [0u8; K];
    let mut x = 0u64;
    for i in 0..K {
        loop {
            let c = choose(n - x - 1, (K - i - 1) as u64);
            if idx < c {
                out[i] = x as u8;
                x += 1;
                break;
            }
            idx -= c;
            x += 1;
        }
    }
    out
}
