//! Runner: evidence accumulation, violation / known-finding handling, replay files, panic
//! capture, deterministic hashing, parallel enumeration helpers.

use serde_json::{json, Map, Value};
use std::cell::Cell;
use std::collections::{BTreeMap, HashSet};
use std::panic::{self, AssertUnwindSafe};
use std::path::PathBuf;
use std::time::Instant;

pub mod enumerate;
pub mod pt;

#[derive(Clone, Copy, PartialEq, Eq, Debug)]
pub enum Tier {
    Quick,
    Thorough,
}

impl Tier {
    pub fn name(self) -> &'static str {
        match self {
            Tier::Quick => "quick",
            Tier::Thorough => "thorough",
        }
    }
    pub fn pick<T>(self, quick: T, thorough: T) -> T {
        match self {
            Tier::Quick => quick,
            Tier::Thorough => thorough,
        }
    }
}

/// Returned by a property run when an unlisted violation was reported: stop.
#[derive(Debug)]
pub struct Stop;

pub type PResult = Result<(), Stop>;

#[derive(Clone, Debug)]
pub struct KnownEntry {
    pub property: String,
    pub signature: String,
    pub text: String,
}

/// Which of the two build profiles this binary is: `checked` (overflow checks + debug assertions,
/// the semantics of `cargo test`) or `unchecked` (neither, the semantics of `cargo build --release`).
pub fn profile() -> &'static str {
    if cfg!(debug_assertions) {
        "checked"
    } else {
        "unchecked"
    }
}

pub fn twin_binary(root: &PathBuf, want_profile: &str) -> PathBuf {
    root.join("harness/target").join(if want_profile == "unchecked" { "unchecked" } else { "release" }).join("ckc-verif")
}

pub fn verif_root() -> PathBuf {
    if let Ok(p) = std::env::var("VERIF_ROOT") {
        return PathBuf::from(p);
    }
    // harness/ is one level below the root
    let exe = std::env::current_exe().ok();
    if let Some(e) = exe {
        // <root>/harness/target/<profile>/ckc-verif
        let mut p = e.clone();
        for _ in 0..4 {
            p.pop();
        }
        if p.join("properties.jsonl").exists() {
            return p;
        }
    }
    PathBuf::from("/verif")
}

pub fn load_known(root: &PathBuf) -> Vec<KnownEntry> {
    let mut v = Vec::new();
    if let Ok(s) = std::fs::read_to_string(root.join("known-findings.txt")) {
        for line in s.lines() {
            let line = line.trim();
            // known: property=C05 signature=<clause>:<canonical input> <what fails>
            if let Some(rest) = line.strip_prefix("known:") {
                let mut prop = String::new();
                let mut sig = String::new();
                let mut text = Vec::new();
                for tok in rest.split_whitespace() {
                    if let Some(p) = tok.strip_prefix("property=") {
                        prop = p.to_string();
                    } else if let Some(s) = tok.strip_prefix("signature=") {
                        sig = s.to_string();
                    } else {
                        text.push(tok);
                    }
                }
                if !prop.is_empty() && !sig.is_empty() {
                    v.push(KnownEntry { property: prop, signature: sig, text: text.join(" ") });
                }
            }
        }
    }
    v
}

pub struct Run {
    pub id: String,
    pub tier: Tier,
    pub seed: u64,
    pub root: PathBuf,
    start: Instant,
    pub evaluations: u64,
    pub nontrivial: u64,
    pub rule: String,
    pub samples: Vec<Value>,
    pub classes: BTreeMap<String, u64>,
    pub generators: Vec<Value>,
    pub exhaustive: bool,
    pub exhaustive_note: String,
    pub assumptions: Vec<String>,
    pub known: Vec<KnownEntry>,
    pub known_hits: Vec<String>,
    pub violations: u64,
    pub extra: Map<String, Value>,
    /// when set (sub-process mode), results are printed as JSON instead of written as evidence
    pub sub: Option<String>,
    pub write_evidence: bool,
    /// cold-start mode (fresh child process): only the k-th stress pass runs, concurrently from the
    /// very first call into the crate, then the process exits
    pub cold: Option<usize>,
    pub pass_counter: usize,
    pub cold_singles: usize,
}

impl Run {
    pub fn new(id: &str, tier: Tier, seed: u64) -> Run {
        let root = verif_root();
        let known = load_known(&root);
        Run {
            id: id.to_string(),
            tier,
            seed,
            root,
            start: Instant::now(),
            evaluations: 0,
            nontrivial: 0,
            rule: String::new(),
            samples: Vec::new(),
            classes: BTreeMap::new(),
            generators: Vec::new(),
            exhaustive: false,
            exhaustive_note: String::new(),
            assumptions: Vec::new(),
            known,
            known_hits: Vec::new(),
            violations: 0,
            extra: Map::new(),
            sub: None,
            write_evidence: true,
            cold: None,
            pass_counter: 0,
            cold_singles: 28,
        }
    }

    pub fn elapsed(&self) -> f64 {
        self.start.elapsed().as_secs_f64()
    }

    /// Record one generator's work. `cases` = inputs tried, `nontrivial` = distinct non-trivial
    /// ones among them (counted by the caller), `domain` = size of the complete domain if finite.
    pub fn generator(&mut self, name: &str, kind: &str, domain: Option<u64>, cases: u64, nontrivial: u64, note: &str) {
        if self.cold.is_some() {
            // a cold-start child ran past its stress passes: nothing (more) to do
            println!("COLDRESULT none");
            std::process::exit(0);
        }
        self.evaluations += cases;
        self.nontrivial += nontrivial;
        let complete = domain.map(|d| d == cases);
        self.generators.push(json!({
            "name": name, "profile": profile(), "kind": kind, "domain_size": domain, "cases": cases,
            "distinct_nontrivial": nontrivial, "complete": complete, "note": note,
            "t_s": (self.elapsed() * 1000.0).round() / 1000.0,
        }));
        eprintln!(
            "[{} {:7.2}s] {:<34} {:>14} cases {:>14} non-trivial  {}",
            self.id,
            self.elapsed(),
            name,
            cases,
            nontrivial,
            if complete == Some(true) { "(complete)" } else { "" }
        );
    }

    pub fn sample(&mut self, v: Value) {
        if self.samples.len() < 24 {
            self.samples.push(v);
        }
    }

    pub fn class(&mut self, label: &str, n: u64) {
        if n > 0 {
            *self.classes.entry(label.to_string()).or_insert(0) += n;
        }
    }

    pub fn assume(&mut self, s: &str) {
        self.assumptions.push(s.to_string());
    }

    /// Report a failing case. Returns Ok(()) when it is a listed known finding (run goes on),
    /// Err(Stop) otherwise (after printing the VIOLATION line).
    pub fn violation(&mut self, clause: &str, signature: &str, case: Value, message: &str) -> PResult {
        let full_sig = format!("{}:{}", clause, signature);
        if let Some(k) = self.known.iter().find(|k| k.property == self.id && k.signature == full_sig) {
            let line = format!("KNOWN-FINDING: property={} {} [{}]", self.id, k.text, full_sig);
            if !self.known_hits.contains(&line) {
                println!("{}", line);
                self.known_hits.push(line);
            }
            return Ok(());
        }
        let rec = json!({
            "property": self.id, "clause": clause, "signature": full_sig, "case": case,
            "message": message, "tier": self.tier.name(), "seed": self.seed, "profile": profile(),
        });
        let text = serde_json::to_string_pretty(&rec).unwrap();
        let h = fnv64(text.as_bytes());
        let dir = self.root.join("replays");
        let _ = std::fs::create_dir_all(&dir);
        let path = dir.join(format!("{}-{}-{:016x}.json", self.id, sanitize(clause), h));
        let _ = std::fs::write(&path, text);
        self.violations += 1;
        self.samples.insert(0, json!({"violating_case": case, "clause": clause}));
        self.samples.truncate(24);
        println!("VIOLATION property={} replay={}", self.id, path.display());
        println!("  clause : {}", clause);
        println!("  what   : {}", message);
        println!("  case   : {}", serde_json::to_string(&case).unwrap());
        Err(Stop)
    }

    pub fn evidence_json(&self) -> Value {
        let mut cov = Map::new();
        cov.insert("evaluations".into(), json!(self.evaluations));
        cov.insert("distinct_nontrivial".into(), json!(self.nontrivial));
        cov.insert("rule".into(), json!(self.rule));
        cov.insert("samples".into(), json!(self.samples));
        cov.insert("exhaustive".into(), json!(self.exhaustive));
        if !self.exhaustive_note.is_empty() {
            cov.insert("exhaustive_note".into(), json!(self.exhaustive_note));
        }
        cov.insert("classes".into(), json!(self.classes));
        cov.insert("generators".into(), json!(self.generators));
        if !self.known_hits.is_empty() {
            cov.insert("known_findings_hit".into(), json!(self.known_hits));
        }
        for (k, v) in &self.extra {
            cov.insert(k.clone(), v.clone());
        }
        json!({
            "property_id": self.id,
            "tier": self.tier.name(),
            "seed": self.seed,
            "level": "exploration",
            "coverage": Value::Object(cov),
            "assumptions": self.assumptions,
            "wall_s": (self.elapsed() * 1000.0).round() / 1000.0,
            "violations": self.violations,
        })
    }

    pub fn finish(&self) {
        let ev = self.evidence_json();
        if let Some(tag) = &self.sub {
            // sub-process mode: hand the partial result to the parent on stdout
            println!("SUBRESULT {} {}", tag, serde_json::to_string(&ev).unwrap());
            return;
        }
        if !self.write_evidence {
            return;
        }
        let dir = self.root.join("evidence");
        let _ = std::fs::create_dir_all(&dir);
        let path = dir.join(format!("{}.json", self.id));
        std::fs::write(&path, serde_json::to_string_pretty(&ev).unwrap() + "\n").expect("write evidence");
        eprintln!(
            "[{} {:7.2}s] evidence: {} evaluations, {} distinct non-trivial, violations {} -> {}",
            self.id,
            self.elapsed(),
            self.evaluations,
            self.nontrivial,
            self.violations,
            path.display()
        );
    }

    /// true in the re-execution under the other build profile: heavy generators may use a lighter
    /// budget there (the full budget already ran in the primary profile)
    pub fn is_twin(&self) -> bool {
        self.sub.is_some()
    }

    /// Re-execute this property in the binary built with the other profile and merge its result.
    /// Ok(()) if it held there too; Err(Stop) if the twin reported a violation (it printed it).
    pub fn run_twin(&mut self) -> PResult {
        let other = if profile() == "checked" { "unchecked" } else { "checked" };
        let twin = twin_binary(&self.root, other);
        if !twin.exists() {
            panic!("twin binary {} missing: run ./check build", twin.display());
        }
        let out = std::process::Command::new(&twin)
            .arg(&self.id)
            .arg("--tier")
            .arg(self.tier.name())
            .arg("--seed")
            .arg(format!("{}", self.seed as i64))
            .arg("--sub")
            .arg(other)
            .env("VERIF_ROOT", &self.root)
            .stderr(std::process::Stdio::inherit())
            .output()
            .expect("spawn twin");
        let text = String::from_utf8_lossy(&out.stdout).to_string();
        let mut merged = false;
        for line in text.lines() {
            if let Some(rest) = line.strip_prefix("SUBRESULT ") {
                let (tag, js) = rest.split_once(' ').unwrap_or(("?", "{}"));
                let ev: Value = serde_json::from_str(js).expect("sub result json");
                self.merge_sub(tag, &ev);
                merged = true;
            } else {
                println!("{}", line);
            }
        }
        match out.status.code() {
            Some(0) if merged => Ok(()),
            Some(1) => {
                self.violations += 1;
                Err(Stop)
            }
            c => panic!("twin binary ended with {:?}", c),
        }
    }

    /// Fresh-process concurrency: spawn children of both binaries in cold-start mode; each child runs
    /// one stress pass of the property from 16 barrier-released threads as its very first calls into
    /// the crate (lazily initialised state, first-use races), and reports.
    pub fn cold_children(&mut self) -> PResult {
        // (binary, cold code) for every child; run in small batches so that the threads of one child
        // are not starved by hundreds of others (the offset sweep needs them to run at the same time)
        let mut jobs: Vec<(&'static str, PathBuf, usize)> = Vec::new();
        for prof in ["checked", "unchecked"] {
            let bin = twin_binary(&self.root, prof);
            if !bin.exists() {
                continue;
            }
            for k in 0..2usize {
                // properties whose children are cheap (no model tables, short item lists) get more of them
                let cheap = self.cold_singles > 28;
                let reps = (if k == 0 { if cheap { 40usize } else { 12 } } else { 4 }) * if self.tier == Tier::Thorough { 4 } else { 1 };
                for rep in 0..reps {
                    jobs.push((prof, bin.clone(), k + 16 * rep));
                }
            }
        }
        // single-threaded cold starts: the process's first call is a chosen item, then all items in
        // ascending and descending order (state that is laid out by, or depends on, the first inputs)
        for prof in ["checked", "unchecked"] {
            let bin = twin_binary(&self.root, prof);
            if !bin.exists() {
                continue;
            }
            for r in 0..(if prof == "checked" { self.cold_singles } else { 10 }) {
                jobs.push((prof, bin.clone(), 1000 + r));
            }
        }
        // the children get this run's model tables instead of rebuilding them (0.35 s each)
        let tables_file = self.root.join("harness/target").join(format!("model-tables-{}.bin", std::process::id()));
        let tables_env: Option<String> = match crate::model::poker::save_tables(crate::model::poker::tables(), &tables_file.to_string_lossy()) {
            Ok(()) => Some(tables_file.to_string_lossy().to_string()),
            Err(_) => None,
        };
        let batch: usize = std::env::var("VERIF_COLD_BATCH").ok().and_then(|s| s.parse().ok()).unwrap_or(2);
        let n = jobs.len() as u64;
        let mut ran = 0u64;
        let mut failure: Option<(String, Value)> = None;
        for chunk in jobs.chunks(batch.max(1)) {
            let mut procs = Vec::new();
            for (prof, bin, code) in chunk {
                let child = std::process::Command::new(bin)
                    .arg(&self.id)
                    .arg("--tier")
                    .arg(self.tier.name())
                    .arg("--seed")
                    .arg(format!("{}", self.seed as i64))
                    .arg("--cold")
                    .arg(format!("{}", code))
                    .env("VERIF_TABLES_FILE", tables_env.clone().unwrap_or_default())
                    .env("VERIF_ROOT", &self.root)
                    .stdout(std::process::Stdio::piped())
                    .stderr(std::process::Stdio::null())
                    .spawn();
                if let Ok(c) = child {
                    procs.push((*prof, if *code >= 1000 { *code } else { code % 16 }, c));
                }
            }
            for (prof, k, c) in procs {
                let out = c.wait_with_output().expect("cold child");
                let text = String::from_utf8_lossy(&out.stdout).to_string();
                if std::env::var("VERIF_COLD_DEBUG").is_ok() {
                    eprintln!("cold child {} pass {}: {:?} {}", prof, k, out.status.code(), text.lines().filter(|l| l.starts_with("COLDRESULT")).map(|l| &l[..l.len().min(18)]).collect::<Vec<_>>().join("|"));
                }
                for line in text.lines() {
                    if let Some(js) = line.strip_prefix("COLDRESULT fail ") {
                        if failure.is_none() {
                            let mut v: Value = serde_json::from_str(js).unwrap_or(Value::Null);
                            if let Some(o) = v.as_object_mut() {
                                o.insert("profile".into(), json!(prof));
                                o.insert("stress_pass".into(), json!(k));
                            }
                            failure = Some((prof.to_string(), v));
                        }
                    } else if line.starts_with("COLDRESULT ok") {
                        ran += 1;
                    }
                }
            }
            if failure.is_some() {
                break;
            }
        }
        let _ = std::fs::remove_file(&tables_file);
        self.evaluations += ran;
        self.generators.push(json!({"name": "fresh child processes: a stress pass run from 16 barrier-released threads as the first calls into the crate", "kind": "concurrent cold start (not schedule-controlled)", "cases": n, "children_that_ran_a_pass": ran, "note": "both build profiles x (12 repetitions of the first stress pass, 40 where a child is cheap, + 4 of the second), each repetition starting on different items; children run two at a time; finds first-use races (lazily built state) only with the probability of the interleaving"}));
        if let Some((_prof, v)) = failure {
            let clause = format!("{}.concurrent_cold_start", self.id);
            let msg = v["message"].as_str().unwrap_or("").to_string();
            let sig = v["sig"].as_str().unwrap_or("").to_string();
            let id_case = json!({"clause": v["clause"], "case": v["case"], "profile": v["profile"], "first_call": v["first_call"], "cold_code": v["cold_code"]});
            let how = if msg.starts_with("single-threaded") { "in a fresh process: " } else { "in a fresh process, with 48 threads making their first calls at the same time: " };
            return self.violation(&clause, &sig, id_case, &format!("{}{}", how, msg));
        }
        Ok(())
    }

    /// Fresh single-threaded child processes of this binary, one per code (codes >= 3000 belong to the
    /// property): the property's `run` sees `self.cold == Some(code)` as the first thing, makes its calls
    /// and prints one line `FRESHRESULT ok <calls>` or `FRESHRESULT fail <json>`. Histories that must
    /// start from a process in which nothing has been asked yet (exact call counts).
    /// Returns (children that reported, calls made, first failure in code order).
    pub fn fresh_children(&self, codes: &[usize], tables: bool) -> (u64, u64, Option<(usize, Value)>) {
        use rayon::prelude::*;
        let bin = std::env::current_exe().unwrap_or_else(|_| twin_binary(&self.root, profile()));
        // the children get this run's model tables instead of rebuilding them (0.35 s each)
        let tables_file = self.root.join("harness/target").join(format!("model-tables-fresh-{}.bin", std::process::id()));
        let tables_env: String = if tables && crate::model::poker::save_tables(crate::model::poker::tables(), &tables_file.to_string_lossy()).is_ok() { tables_file.to_string_lossy().to_string() } else { String::new() };
        let results: Vec<(usize, Option<u64>, Option<Value>)> = codes
            .par_iter()
            .map(|code| {
                let out = std::process::Command::new(&bin)
                    .arg(&self.id)
                    .arg("--tier")
                    .arg(self.tier.name())
                    .arg("--seed")
                    .arg(format!("{}", self.seed as i64))
                    .arg("--cold")
                    .arg(format!("{}", code))
                    .env("VERIF_ROOT", &self.root)
                    .env("VERIF_TABLES_FILE", &tables_env)
                    .stdout(std::process::Stdio::piped())
                    .stderr(std::process::Stdio::null())
                    .output();
                let mut calls = None;
                let mut fail = None;
                if let Ok(o) = out {
                    for line in String::from_utf8_lossy(&o.stdout).lines() {
                        if let Some(n) = line.strip_prefix("FRESHRESULT ok ").or_else(|| line.strip_prefix("COLDRESULT ok ")) {
                            calls = n.trim().parse::<u64>().ok();
                        } else if let Some(js) = line.strip_prefix("FRESHRESULT fail ").or_else(|| line.strip_prefix("COLDRESULT fail ")) {
                            fail = serde_json::from_str::<Value>(js).ok();
                        }
                    }
                }
                (*code, calls, fail)
            })
            .collect();
        let _ = std::fs::remove_file(&tables_file);
        let ran = results.iter().filter(|r| r.1.is_some() || r.2.is_some()).count() as u64;
        let calls = results.iter().filter_map(|r| r.1).sum::<u64>();
        let fail = results.into_iter().find_map(|r| r.2.map(|v| (r.0, v)));
        (ran, calls, fail)
    }

    /// Merge a sub-process result (same property, other build profile) into this run.
    pub fn merge_sub(&mut self, tag: &str, ev: &Value) {
        let cov = &ev["coverage"];
        self.evaluations += cov["evaluations"].as_u64().unwrap_or(0);
        // the twin re-executes (a subset of) the same cases under the other build profile: they are
        // executions, not new distinct cases, so they do not add to distinct_nontrivial
        self.extra.insert(format!("distinct_nontrivial_repeated_in_{}_profile", tag), json!(cov["distinct_nontrivial"].as_u64().unwrap_or(0)));
        if let Some(gs) = cov["generators"].as_array() {
            for g in gs {
                let mut g = g.clone();
                if let Some(o) = g.as_object_mut() {
                    let n = format!("{}@{}", o["name"].as_str().unwrap_or(""), tag);
                    o.insert("name".into(), json!(n));
                }
                self.generators.push(g);
            }
        }
        if let Some(cl) = cov["classes"].as_object() {
            for (k, v) in cl {
                *self.classes.entry(format!("{}@{}", k, tag)).or_insert(0) += v.as_u64().unwrap_or(0);
            }
        }
        if let Some(ss) = cov["samples"].as_array() {
            for s in ss.iter().take(4) {
                self.samples.push(json!({"profile": tag, "case": s}));
            }
        }
    }
}

fn sanitize(s: &str) -> String {
    s.chars().map(|c| if c.is_ascii_alphanumeric() || c == '.' || c == '_' { c } else { '_' }).collect()
}

// ---------------------------------------------------------------------------------------------
// deterministic hashing

pub fn fnv64(b: &[u8]) -> u64 {
    let mut h = 0xcbf29ce484222325u64;
    for x in b {
        h ^= *x as u64;
        h = h.wrapping_mul(0x100000001b3);
    }
    h
}

/// splitmix64 finaliser: a pure mixing function used for strata and seeded orders
#[inline]
pub fn mix(mut z: u64) -> u64 {
    z = z.wrapping_add(0x9E3779B97F4A7C15);
    z = (z ^ (z >> 30)).wrapping_mul(0xBF58476D1CE4E5B9);
    z = (z ^ (z >> 27)).wrapping_mul(0x94D049BB133111EB);
    z ^ (z >> 31)
}

#[inline]
pub fn mix2(a: u64, b: u64) -> u64 {
    mix(mix(a) ^ b.wrapping_mul(0xD6E8FEB86659FD93))
}

/// A tiny deterministic generator for *enumeration-side* choices (which stratum, which slot
/// order): a pure function of (seed, stream). Random *case generation* goes through proptest.
pub struct SplitMix(pub u64);
impl SplitMix {
    pub fn new(seed: u64, stream: u64) -> Self {
        SplitMix(mix2(seed, stream))
    }
    #[inline]
    pub fn next(&mut self) -> u64 {
        self.0 = self.0.wrapping_add(0x9E3779B97F4A7C15);
        let mut z = self.0;
        z = (z ^ (z >> 30)).wrapping_mul(0xBF58476D1CE4E5B9);
        z = (z ^ (z >> 27)).wrapping_mul(0x94D049BB133111EB);
        z ^ (z >> 31)
    }
    #[inline]
    pub fn below(&mut self, n: u64) -> u64 {
        ((self.next() as u128 * n as u128) >> 64) as u64
    }
}

/// k-th permutation of 0..N (Lehmer code); k in 0..N!
#[inline]
pub fn perm_from_index<const N: usize>(mut k: u64) -> [u8; N] {
    let mut pool = [0u8; N];
    for (i, p) in pool.iter_mut().enumerate() {
        *p = i as u8;
    }
    let mut out = [0u8; N];
    let mut f = 1u64;
    for i in 1..N as u64 {
        f *= i;
    }
    // f = (N-1)!
    let mut len = N;
    for i in 0..N {
        let d = (k / f) as usize;
        k %= f;
        out[i] = pool[d];
        for j in d..len - 1 {
            pool[j] = pool[j + 1];
        }
        len -= 1;
        if len > 0 {
            f /= len as u64;
        }
    }
    out
}

pub const fn factorial(n: u64) -> u64 {
    let mut f = 1;
    let mut i = 2;
    while i <= n {
        f *= i;
        i += 1;
    }
    f
}

#[inline]
pub fn apply_perm<const N: usize>(a: &[u32; N], p: &[u8; N]) -> [u32; N] {
    let mut o = [0u32; N];
    for i in 0..N {
        o[i] = a[p[i] as usize];
    }
    o
}

// ---------------------------------------------------------------------------------------------
// panic capture

thread_local! {
    static IN_GUARD: Cell<bool> = const { Cell::new(false) };
}

pub fn install_panic_hook() {
    let default = panic::take_hook();
    panic::set_hook(Box::new(move |info| {
        let quiet = IN_GUARD.with(|g| g.get());
        if !quiet {
            default(info);
        }
    }));
}

/// Call code under test; a panic becomes Err(message).
pub fn guard<T>(f: impl FnOnce() -> T) -> Result<T, String> {
    let prev = IN_GUARD.with(|g| g.replace(true));
    let r = panic::catch_unwind(AssertUnwindSafe(f));
    IN_GUARD.with(|g| g.set(prev));
    r.map_err(|e| {
        if let Some(s) = e.downcast_ref::<&str>() {
            s.to_string()
        } else if let Some(s) = e.downcast_ref::<String>() {
            s.clone()
        } else {
            "panic".to_string()
        }
    })
}

// ---------------------------------------------------------------------------------------------
// distinct counting for random cases

#[derive(Default)]
pub struct Distinct {
    seen: HashSet<u64>,
}
impl Distinct {
    pub fn new() -> Self {
        Distinct { seen: HashSet::new() }
    }
    /// returns true when this hash was not seen before
    pub fn insert(&mut self, h: u64) -> bool {
        self.seen.insert(h)
    }
    pub fn len(&self) -> u64 {
        self.seen.len() as u64
    }
    pub fn is_empty(&self) -> bool {
        self.seen.is_empty()
    }
}

pub fn hash_words(ws: &[u32]) -> u64 {
    let mut h = 0x243F6A8885A308D3u64 ^ ws.len() as u64;
    for w in ws {
        h = mix(h ^ *w as u64);
    }
    h
}

pub fn hash_str(s: &str) -> u64 {
    fnv64(s.as_bytes())
}

pub fn hex(w: u32) -> String {
    format!("0x{:08X}", w)
}

pub fn words_json(ws: &[u32]) -> Value {
    json!(ws.iter().map(|w| hex(*w)).collect::<Vec<_>>())
}

pub fn parse_word(v: &Value) -> Result<u32, String> {
    if let Some(n) = v.as_u64() {
        return Ok(n as u32);
    }
    let s = v.as_str().ok_or("word must be a string or number")?;
    let s = s.trim_start_matches("0x");
    u32::from_str_radix(s, 16).map_err(|e| e.to_string())
}

pub fn parse_words(v: &Value) -> Result<Vec<u32>, String> {
    v.as_array().ok_or("words must be an array")?.iter().map(parse_word).collect()
}

// ---------------------------------------------------------------------------------------------
// thread-safe statistics for random (proptest) generators

pub struct RStats {
    inner: std::sync::Mutex<RInner>,
}

struct RInner {
    cases: u64,
    nontrivial: u64,
    distinct: Distinct,
    classes: BTreeMap<String, u64>,
    samples: Vec<Value>,
    frozen: bool,
}

impl Default for RStats {
    fn default() -> Self {
        Self::new()
    }
}

impl RStats {
    pub fn new() -> Self {
        RStats { inner: std::sync::Mutex::new(RInner { cases: 0, nontrivial: 0, distinct: Distinct::new(), classes: BTreeMap::new(), samples: Vec::new(), frozen: false }) }
    }
    /// record one generated case: `hash` identifies it, `nontrivial` by the property's rule
    pub fn note(&self, hash: u64, nontrivial: bool, label: Option<&str>, sample: impl FnOnce() -> Value) {
        let mut g = self.inner.lock().unwrap();
        if g.frozen {
            return;
        }
        g.cases += 1;
        if g.distinct.insert(hash) && nontrivial {
            g.nontrivial += 1;
        }
        if let Some(l) = label {
            *g.classes.entry(l.to_string()).or_insert(0) += 1;
        }
        if nontrivial && g.samples.len() < 3 && g.cases % 997 == 13 {
            g.samples.push(sample());
        }
    }
    /// stop counting: called at the first failure (the test closure is re-run while shrinking)
    pub fn freeze(&self) {
        self.inner.lock().unwrap().frozen = true;
    }
    pub fn flush(&self, run: &mut Run, name: &str, kind: &str, domain: Option<u64>, note: &str) {
        let mut g = self.inner.lock().unwrap();
        run.generator(name, kind, domain, g.cases, g.nontrivial, note);
        for (k, v) in g.classes.iter() {
            run.class(&format!("{}: {}", name, k), *v);
        }
        for s in g.samples.drain(..) {
            run.sample(s);
        }
    }
}

/// A fast check failed on `what`, but the careful (per-call) re-examination of the same input
/// found nothing wrong. Re-run the fast check: if it passes now, the code under test returned
/// different results for the same call (state carried between calls, or a data race) — that is a
/// violation in its own right and the returned text describes it. If the fast check keeps
/// failing while the careful one passes, the two harness paths contradict each other: harness
/// defect (panic => exit 2), never a violation.
pub fn unstable_message(what: &str, rerun_fast_ok: impl Fn() -> bool) -> String {
    for _ in 0..3 {
        if rerun_fast_ok() {
            return format!(
                "{}: a call returned a wrong result during the enumeration, but repeating the same call (alone, and again inside the fast check) gives the right one — the result depends on something other than the input (state carried over from earlier calls, or a data race between threads)",
                what
            );
        }
    }
    panic!("fast and slow check paths disagree consistently on {} (harness defect, not a violation)", what);
}

/// Values related to `b` by the operations a hash / key / mask / fast path would plausibly
/// conflate it with: single-bit flips, +-1, shifts, complements, truncations, and the offsets that
/// matter for hand ranks (7462, 7463).
pub fn u16_partners(b: u16) -> Vec<u16> {
    let mut v: Vec<u16> = Vec::with_capacity(48);
    for k in 0..16 {
        v.push(b ^ (1 << k));
    }
    for d in [1u16, 2, 10, 13, 52, 166, 322, 1599, 1609, 2467, 3325, 6185, 7462, 7463, 8192, 32768] {
        v.push(b.wrapping_add(d));
        v.push(b.wrapping_sub(d));
    }
    v.extend([!b, b >> 1, b << 1, b & 0x1FFF, b & 0xFF, b.swap_bytes(), b.rotate_left(3), 0, 1, 7462, 7463, u16::MAX]);
    v
}

// ---------------------------------------------------------------------------------------------
// call-order independence over a finite set of inputs

/// Every ordered pair (a, b) of `items`, back to back on one thread: `touch(a)` is called (result
/// ignored), then `check(b)` calls the same API on b and compares with the model. A one-entry memo,
/// a stale cache or any other state carried from one call to the next shows up as a `check(b)`
/// that fails only after a particular `a`. Rows (fixed a) are distributed over threads; a failure
/// is confirmed on the calling thread (warm-up, a, b) before it is reported, so that the reported
/// sequence reproduces in a fresh process. Returns (index a, index b, message).
pub fn ordered_pairs<T: Sync>(
    items: &[T],
    touch: &(dyn Fn(&T) + Sync),
    check: &(dyn Fn(&T) -> Result<(), String> + Sync),
) -> Option<(usize, usize, String)> {
    ordered_pairs_mode(items, touch, check, items.len() > 9000)
}

/// `parallel = false`: one thread walks all pairs in order — with process-wide state in the code
/// under test this is the only way to guarantee that b really is preceded by a, so it is used
/// whenever the number of pairs allows; `parallel = true` distributes rows over threads (other
/// threads' calls may then come between a and b: still a search over predecessors, no longer an
/// exhaustive one).
pub fn ordered_pairs_mode<T: Sync>(
    items: &[T],
    touch: &(dyn Fn(&T) + Sync),
    check: &(dyn Fn(&T) -> Result<(), String> + Sync),
    parallel: bool,
) -> Option<(usize, usize, String)> {
    use rayon::prelude::*;
    let n = items.len();
    let row = |a: usize| -> Option<(usize, usize)> {
        for b in 0..n {
            let r = guard(|| {
                touch(&items[a]);
                check(&items[b])
            });
            if !matches!(r, Ok(Ok(()))) {
                return Some((a, b));
            }
        }
        None
    };
    let cand: Option<(usize, usize)> = if parallel { (0..n).into_par_iter().find_map_first(row) } else { (0..n).find_map(row) };
    let (a, b) = cand?;
    // confirm sequentially: warm-up on an unrelated item, then a, then b
    let confirm = |a: usize, b: usize| -> Option<String> {
        let w = (a + n / 2 + 1) % n;
        let _ = guard(|| touch(&items[w]));
        let _ = guard(|| touch(&items[a]));
        match guard(|| check(&items[b])) {
            Ok(Ok(())) => None,
            Ok(Err(m)) => Some(m),
            Err(p) => Some(format!("panicked: {}", p)),
        }
    };
    if let Some(m) = confirm(a, b) {
        return Some((a, b, m));
    }
    // the parallel hit did not reproduce in isolation: look for any reproducible pair in that row,
    // then anywhere (sequentially); if none, report the unconfirmed observation
    for bb in 0..n {
        if let Some(m) = confirm(a, bb) {
            return Some((a, bb, m));
        }
    }
    Some((a, b, "a call gave a wrong result after another call during the parallel sweep, but the two-call sequence does not reproduce on its own: the result depends on more history than the previous call (or on a data race)".to_string()))
}
