//! proptest driven from a binary: fixed seed, no persistence, fixed case count; the failing
//! value comes back shrunk.

use proptest::strategy::Strategy;
use proptest::test_runner::{Config, RngAlgorithm, RngSeed, TestCaseError, TestError, TestRunner};

pub struct Failure<T> {
    pub value: T,
    pub reason: String,
}

/// Run `cases` cases of `strategy` through `test`. Ok(()) if all passed.
pub fn run<S: Strategy>(
    seed: u64,
    stream: u64,
    cases: u32,
    strategy: &S,
    test: impl Fn(S::Value) -> Result<(), String>,
) -> Result<(), Failure<S::Value>>
where
    S::Value: Clone + std::fmt::Debug,
{
    let cfg = Config {
        cases,
        failure_persistence: None,
        rng_algorithm: RngAlgorithm::ChaCha,
        rng_seed: RngSeed::Fixed(super::mix2(seed, stream)),
        max_shrink_iters: 20_000,
        max_global_rejects: 0,
        max_local_rejects: 65_536,
        verbose: 0,
        ..Config::default()
    };
    let mut runner = TestRunner::new(cfg);
    match runner.run(strategy, |v| test(v).map_err(TestCaseError::fail)) {
        Ok(()) => Ok(()),
        Err(TestError::Fail(reason, value)) => Err(Failure { value, reason: reason.message().to_string() }),
        Err(TestError::Abort(reason)) => panic!("proptest aborted (harness defect, not a violation): {}", reason),
    }
}
