//! proptest driven from a binary: fixed seed, no persistence, fixed case count; the failing
//! value comes back shrunk.

use proptest::strategy::Strategy;
use proptest::test_runner::{Config, RngAlgorithm, RngSeed, TestCaseError, TestError, TestRunner};

pub struct Failure<T> {
    pub value: T,
    pub reason: String,
}

/// Run `cases` cases of `strategy` through `test`. Ok(()) if all passed.
pub fn run<S: Strategy>(
    seed: u64,
    stream: u64,
    cases: u32,
    strategy: &S,
    test: impl Fn(S::Value) -> Result<(), String>,
) -> Result<(), Failure<S::Value>>
where
    S::Value: Clone + std::fmt::Debug,
{
    let cfg = Config {
        cases,
        failure_persistence: None,
        rng_algorithm: RngAlgorithm::ChaCha,
        rng_seed: RngSeed::Fixed(super::mix2(seed, stream)),
        max_shrink_iters: 20_000,
        max_global_rejects: 0,
        max_local_rejects: 65_536,
        verbose: 0,
        ..Config::default()
    };
    let mut runner = TestRunner::new(cfg);
    match runner.run(strategy, |v| test(v).map_err(TestCaseError::fail)) {
        Ok(()) => Ok(()),
        Err(TestError::Fail(reason, value)) => Err(Failure { value, reason: reason.message().to_string() }),
        Err(TestError::Abort(reason)) => panic!("proptest aborted (harness defect, not a violation): {}", reason),
    }
}

/// Same contract as `run`, spread over several threads: shard k runs its own TestRunner seeded
/// with mix(seed, stream, k) for cases/shards cases. Deterministic: every shard runs to its own
/// end (or its own first failure, shrunk), and the failure of the lowest failing shard is returned.
pub fn run_sharded<S: Strategy>(
    seed: u64,
    stream: u64,
    cases: u32,
    make: &(dyn Fn() -> S + Sync),
    test: &(dyn Fn(S::Value) -> Result<(), String> + Sync),
) -> Result<(), Failure<S::Value>>
where
    S::Value: Clone + std::fmt::Debug + Send,
{
    let shards = shard_count();
    let per = (cases as usize + shards - 1) / shards;
    let results: Vec<Result<(), Failure<S::Value>>> = std::thread::scope(|sc| {
        let handles: Vec<_> = (0..shards)
            .map(|k| {
                sc.spawn(move || {
                    let strat = make();
                    run(super::mix2(seed, 0x5AAD_0000 + k as u64), stream, per as u32, &strat, |v| test(v))
                })
            })
            .collect();
        handles.into_iter().map(|h| h.join().expect("shard thread panicked (harness defect)")).collect()
    });
    for r in results {
        r?;
    }
    Ok(())
}

pub fn shard_count() -> usize {
    8
}
