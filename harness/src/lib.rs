pub mod model; pub mod engine; pub mod props;
