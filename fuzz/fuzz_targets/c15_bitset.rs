#![no_main]
//! bytes -> structured case -> semantic oracle (harness/src/props/c15.rs::check_bytes).
//! A violation (or a panic in the code under test) aborts; the artifact is then decoded,
//! shrunk and turned into a replay file by the harness (props/fuzz.rs).
use libfuzzer_sys::fuzz_target;

fuzz_target!(|data: &[u8]| {
    if let Err(m) = ckc_verif::props::c15::check_bytes(data) {
        panic!("{}", m);
    }
});
