#!/usr/bin/env python3
"""Vet one seeded change produced by a sub-agent and run the registered checks against it.

  tools/seed.py vet <PROP> <n> "<what it needs to manifest>" [--checks C01,C02]

1. in the agent's scratch worktree /tmp/seed/<PROP>/wt: demo passes on the clean tree; with the
   change applied the full unedited suite still passes (2542) and the demo fails;
2. applies the change to /repo, runs ./check <ID> quick for the property (and any extra checks),
   reverts /repo (git checkout -- .);
3. stores /verif/seeded/<PROP>-<n>/{patch.diff, demo.rs, meta.json}.
"""
import json, os, re, shutil, subprocess, sys, time
CHECK_ROOT = os.environ.get("VERIF_CHECK_ROOT", "/verif")
REPO = os.environ.get("VERIF_REPO", "/repo")

def sh(cmd, cwd=None, timeout=3600):
    p = subprocess.run(cmd, shell=True, cwd=cwd, stdout=subprocess.PIPE, stderr=subprocess.STDOUT, text=True, timeout=timeout)
    return p.returncode, p.stdout

def recheck_all():
    """Final pass: apply each kept seeded change to REPO (default /repo itself), run the recorded
    quick checks from CHECK_ROOT, revert; update meta.json."""
    import glob
    only = sys.argv[2:]
    rc, out = sh("git status --porcelain", cwd=REPO)
    if out.strip():
        print(REPO + " is dirty, refusing"); sys.exit(1)
    rc, head = sh("git rev-parse --short HEAD", cwd=REPO)
    rc, vhead = sh("git rev-parse --short HEAD", cwd="/verif")
    for d in sorted(glob.glob("/verif/seeded/*/")):
        name = os.path.basename(d.rstrip("/"))
        if only and not any(o in name for o in only):
            continue
        meta = json.load(open(d + "meta.json"))
        rc, out = sh(f"git apply {d}patch.diff", cwd=REPO)
        if rc != 0:
            print(name, "patch does not apply:", out[:200]); continue
        results = {}
        try:
            for c in meta["checks_quick"].keys():
                t = time.time()
                rc, out = sh(f"./check {c} quick --no-evidence", cwd=CHECK_ROOT)
                lines = [l for l in out.splitlines() if l.startswith("VIOLATION") or l.strip().startswith(("clause", "what"))]
                results[c] = {"exit": rc, "seconds": round(time.time() - t, 1), "report": lines[:3]}
        finally:
            sh("git checkout -- . && git clean -fdq src", cwd=REPO)
        meta["checks_quick"] = results
        meta["checks_run_from"] = CHECK_ROOT
        meta["repo_used"] = REPO
        meta["repo_commit"] = head.strip()
        meta["verif_commit"] = vhead.strip()
        meta["caught"] = any(r["exit"] == 1 for r in results.values())
        json.dump(meta, open(d + "meta.json", "w"), indent=1, ensure_ascii=False)
        print(name, "caught" if meta["caught"] else "NOT CAUGHT", {k: (v["exit"], v["seconds"]) for k, v in results.items()}, flush=True)

def main():
    if sys.argv[1] == "recheck-all":
        return recheck_all()
    prop, n, needs = sys.argv[2], sys.argv[3], sys.argv[4]
    checks = [prop]
    if "--checks" in sys.argv:
        checks = sys.argv[sys.argv.index("--checks") + 1].split(",")
    base = "/tmp/seed"
    tag = ""
    if "--src" in sys.argv:
        base = sys.argv[sys.argv.index("--src") + 1]
    if "--tag" in sys.argv:
        tag = sys.argv[sys.argv.index("--tag") + 1] + "-"
    src = f"{base}/{prop}"
    wt = f"{src}/wt"
    diff = f"{src}/out/change{n}.diff"
    demo = f"{src}/out/demo_{n}.rs"
    meta = {"breaks_property": prop, "needs_to_manifest": needs, "ran": []}
    sh("git checkout -- . && git clean -fdq src && rm -rf tests", cwd=wt)
    os.makedirs(f"{wt}/tests", exist_ok=True)
    shutil.copy(demo, f"{wt}/tests/demo_{n}.rs")
    rc, out = sh(f"cargo test --offline --test demo_{n} 2>&1 | tail -15", cwd=wt)
    clean_ok = "test result: ok" in out
    meta["ran"].append({"cmd": f"(clean tree) cargo test --offline --test demo_{n}", "demo_passes": clean_ok})
    rc, out = sh(f"git apply {diff}", cwd=wt)
    if rc != 0:
        print("patch does not apply:", out); sys.exit(1)
    rc, out = sh("cargo test --offline --no-fail-fast 2>&1 | grep -E 'test result|^test .*FAILED|Running|error' | head -40", cwd=wt)
    suite = re.search(r"test result: (\w+)\. (\d+) passed; (\d+) failed", out)
    suite_ok = bool(suite and suite.group(1) == "ok" and suite.group(2) == "2542")
    results_all = re.findall(r"test result: (\w+)\. (\d+) passed; (\d+) failed", out)
    demo_fails = any(r[0] == "FAILED" and r[1] != "2542" for r in results_all) and f"--test demo_{n}" in out
    meta["ran"].append({"cmd": "(with change) cargo test --offline --no-fail-fast", "suite_2542_pass": suite_ok, "demo_fails": demo_fails, "summary": out.strip().splitlines()[-6:]})
    if clean_ok and suite_ok and not demo_fails:
        # a defect that only exists in optimised builds: the demonstration is run with --release
        rc, out2 = sh(f"cargo test --offline --release --test demo_{n} 2>&1 | grep -E 'test result|FAILED' | head -8", cwd=wt)
        rel_fails = "FAILED" in out2
        sh("git checkout -- src", cwd=wt)
        rc, out3 = sh(f"cargo test --offline --release --test demo_{n} 2>&1 | grep -E 'test result|FAILED' | head -8", cwd=wt)
        rel_clean_ok = "test result: ok" in out3 and "FAILED" not in out3
        meta["ran"].append({"cmd": f"cargo test --offline --release --test demo_{n} (with change / clean tree)", "demo_fails_with_change": rel_fails, "demo_passes_clean": rel_clean_ok})
        demo_fails = rel_fails and rel_clean_ok
        meta["demo_needs_release"] = True
    sh("git checkout -- . && git clean -fdq src && rm -rf tests", cwd=wt)
    print(f"clean demo passes={clean_ok}  suite passes with change={suite_ok}  demo fails with change={demo_fails}")
    if not (clean_ok and suite_ok and demo_fails):
        print(out)
        print("NOT KEPT (does not satisfy the requirements)")
        sys.exit(2)
    # run checks against /repo
    rc, out = sh("git status --porcelain", cwd=REPO)
    if out.strip():
        print(REPO + " is dirty, refusing"); sys.exit(1)
    rc, out = sh(f"git apply {diff}", cwd=REPO)
    assert rc == 0, out
    results = {}
    try:
        for c in checks:
            t = time.time()
            rc, out = sh(f"./check {c} quick --no-evidence", cwd=CHECK_ROOT)
            lines = [l for l in out.splitlines() if l.startswith("VIOLATION") or l.strip().startswith(("clause", "what"))]
            results[c] = {"exit": rc, "seconds": round(time.time() - t, 1), "report": lines[:3]}
            print(c, "exit", rc, f"{time.time()-t:.1f}s", *lines[:3], sep="\n   ")
    finally:
        sh("git checkout -- . && git clean -fdq src", cwd=REPO)
    meta["checks_run_from"] = CHECK_ROOT
    meta["repo_used"] = REPO
    meta["checks_quick"] = results
    meta["caught"] = any(r["exit"] == 1 for r in results.values())
    d = f"/verif/seeded/{prop}-{tag}{n}"
    os.makedirs(d, exist_ok=True)
    shutil.copy(diff, f"{d}/patch.diff")
    shutil.copy(demo, f"{d}/demo.rs")
    notes = f"{src}/out/NOTES.md"
    if os.path.exists(notes):
        shutil.copy(notes, f"{d}/agent-notes.md")
    json.dump(meta, open(f"{d}/meta.json", "w"), indent=1, ensure_ascii=False)
    print("kept in", d, "caught =", meta["caught"])

if __name__ == "__main__":
    main()
