#!/usr/bin/env python3
"""Regenerates /verif/MANIFEST.json from the table below (kept in one place so it stays valid)."""
import json, os, sys
ROOT = os.path.dirname(os.path.dirname(os.path.abspath(__file__)))

# id: (technique, level text, level note, design ref)
CHECKS = {}
def add(id, technique, text, note, ref=None):
    CHECKS[id] = dict(technique=technique, text=text, note=note, ref=ref or f"DESIGN.md section 4, {id}")

exec(open(os.path.join(ROOT, "tools", "manifest_table.py")).read())

props = [json.loads(l) for l in open(os.path.join(ROOT, "properties.jsonl"))]
checks = []
na = []
for p in props:
    i = p["id"]
    if i in CHECKS:
        c = CHECKS[i]
        checks.append({
            "property_id": i,
            "quick_cmd": f"./check {i} quick",
            "thorough_cmd": f"./check {i} thorough",
            "evidence_file": f"/verif/evidence/{i}.json",
            "replay_cmd_template": f"./check {i} --replay {{path}}",
            "engine": "ckc-verif",
            "level_claimed": {"category": "exploration", "text": c["text"], "design_ref": c["ref"]},
            "level_note": c["note"],
            "technique": c["technique"],
        })
    else:
        na.append({"property_id": i, "reason": NOT_YET.get(i, "check not built yet in this round; planned (see DESIGN.md section 4)")})

m = {
    "version": 1,
    "setup_cmd": "./check build",
    "hooks": {
        "guard": "ckc_rs_verif",
        "enable": "none needed: every property is observable through the public API, no hook exists in /repo; checks build /repo as a plain path dependency (a --cfg ckc_rs_verif guard is reserved but unused)",
        "baseline_off_cmd": "cd /repo && cargo test --workspace --no-fail-fast --offline",
        "source_commits": [],
        "add_only": True,
    },
    "engines": [
        {"name": "ckc-verif", "path": "harness", "serves_properties": sorted(CHECKS.keys()),
         "kind_free_text": "Rust binary: exhaustive enumerators over the finite domains, proptest TestRunner (fixed seed, shrinking) for open domains, reference models in harness/src/model, libFuzzer targets under fuzz/ for the thorough tier of the open-domain properties"},
    ],
    "checks": checks,
    "notes": NOTES,
    "not_applicable": na,
}
json.dump(m, open(os.path.join(ROOT, "MANIFEST.json"), "w"), indent=1, ensure_ascii=False)
print("wrote MANIFEST.json with", len(checks), "checks,", len(na), "not applicable")
