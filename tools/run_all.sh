#!/bin/bash
# tools/run_all.sh [quick|thorough] [seed]  — every registered check on the current tree; summary + evidence validation
cd "$(dirname "$0")/.."
TIER=${1:-quick}; export VERIF_SEED=${2:-0}
rc_all=0
for i in 01 02 03 04 05 06 07 08 09 10 11 12 13 14 15 16 17 18 19 20; do
  s=$(date +%s.%N)
  out=$(./check C$i $TIER 2>&1); rc=$?
  e=$(date +%s.%N)
  printf "C%s rc=%d %6.1fs %s\n" $i $rc $(echo "$e - $s" | bc) "$(echo "$out" | grep -E '^(VIOLATION|KNOWN-FINDING|INCONCLUSIVE|HARNESS-DEFECT|BUILD-FAILED)' | head -2 | tr '\n' ' ')"
  [ $rc -ne 0 ] && rc_all=1
done
python3-vt - <<'PY'
import json,jsonschema,glob
s=json.load(open('/root/.vp/EVIDENCE.schema.json'))
bad=0
for f in sorted(glob.glob('evidence/*.json')):
    e=json.load(open(f))
    try: jsonschema.validate(e,s)
    except Exception as x: print('INVALID',f,str(x)[:100]); bad+=1
    if e.get('violations'): print('VIOLATIONS in',f); bad+=1
print('evidence files:',len(glob.glob('evidence/*.json')),'problems:',bad)
PY
exit $rc_all
