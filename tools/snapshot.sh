#!/bin/bash
# tools/snapshot.sh — copy the current /verif machinery and /repo HEAD to /var/tmp so that long
# sensitivity runs (which patch the repository) do not disturb work in /verif and /repo.
# Use with: VERIF_CHECK_ROOT=/var/tmp/verif-snap VERIF_REPO=/var/tmp/repo-snap tools/seed.py ...
set -e
rm -rf /var/tmp/repo-snap
git clone -q /repo /var/tmp/repo-snap
mkdir -p /var/tmp/verif-snap
rsync -a --delete --exclude target --exclude .git --exclude 'fuzz/work' --exclude replays /verif/ /var/tmp/verif-snap/
sed -i 's#path = "/repo"#path = "/var/tmp/repo-snap"#' /var/tmp/verif-snap/harness/Cargo.toml
(cd /var/tmp/verif-snap && ./check build >/dev/null 2>&1 || true)
echo snapshot ready
