NOTES = ("All checks: ./check <ID> quick|thorough builds the harness against /repo's working tree in two build profiles "
         "(checked = overflow checks + debug assertions, unchecked = neither; build failure => exit 2), replays regress/<ID>/, "
         "then runs generated search against an explicit oracle in the checked profile and re-executes itself in the unchecked "
         "profile with a lighter budget (full budget for C05) and a Trace-level log logger installed. Before the generators every check "
         "runs a stress pass over representative items of its own domain: right after each of 14 tours of the public API (state "
         "across functions), from 8 threads at once, and — in fresh child processes — as the very first calls of 48 threads released with an offset sweep "
         "(first-use races) and single-threaded with a chosen first call; one item repeated 66,000 times; call-count soaks; call-order independence is checked by exhaustive ordered pairs over finite item sets and by "
         "generated call sequences over related hands. Exit 0 held, 1 VIOLATION (replay file printed), 2 cannot decide "
         "(build failure, oracle self-check failure, watchdog, non-reproducible mismatch). All randomness is a pure function of "
         "VERIF_SEED. Genuine defects found and repaired are listed in known-findings.txt as 'fixed:' lines (three fix: commits "
         "in /repo); no known finding is open. DESIGN.md section 11 records which checks catch which seeded changes.")
NOT_YET = {}

add("C01",
    "exhaustive enumeration (all 5-card subsets x 120 slot orders x 6 entry points) against a rule-based poker ordinal model; exhaustive ordered pairs of class representatives and proptest call sequences (call-order independence); proptest random pairs for the comparator form",
    "The whole stated domain is enumerated (1.87e9 evaluations, ~6 s): every five-card subset in every slot order through every five-card entry point must return the strength ordinal computed by an independent rule-based model; observed per-value hand counts must equal the model's class sizes (so every value 1..=7462 is produced and equal value <=> tie). Exhaustive exploration is the strongest thing testing can give and the domain is small enough to close the quantifier.",
    "Trusted: the reference model (harness/src/model/poker.rs), self-checked at start-up against the published 7462 classes, per-category class counts and five-card frequencies; that the model's 52 words are the crate's cards (C10).")

add("C02",
    "exhaustive enumeration of all 6-card (and, thorough, all 7-card) subsets in ascending, descending and seeded slot orders against two independent rule-based models; proptest-chosen hands under every slot order; proptest call sequences over neighbour hands (purity)",
    "Every six-card subset and (quick: a seeded 1-in-8 stratum of / thorough: every one of the 133,784,560) seven-card subsets is ranked through all five entry points and must equal the minimum ordinal over all five-subsets computed by the model, which must itself equal a direct rule-based n-card evaluation; seeded slot orders per hand and random hands under all 720/5040 orders attack order dependence. Closing the hand quantifier by enumeration is feasible; the order quantifier (N! per hand) is sampled.",
    "Trusted: model (two forms cross-checked on every hand; best-hand category frequencies compared with the published 6-/7-card counts whenever the enumeration is complete). Slot orders beyond canonical are sampled.")
add("C03",
    "same enumerations and call sequences as C02 with a validity predicate over the reported witness; exhaustive identity clause over all five-card hands x 120 orders",
    "The reported hand is checked with a validity predicate (five slots, all from the input, distinct, strictly descending, ranks to the reported value by the crate and by the model) rather than one expected answer, because ties admit several correct witnesses; for five-card inputs the witness must be the input unchanged in every one of the 120 orders.",
    "Trusted: model ordinal for the witness; no claim about which of several equally ranked witnesses is chosen.")
add("C04",
    "exhaustive 2^32 scan of the per-slot recogniser + structured/exhaustive near-miss placement (random and boundary-value base hands) + exhaustive valid-hand sweep + sharded proptest hands with shrinking; libFuzzer target (thorough)",
    "The per-slot factor of the domain (every u32) is enumerated; whole hands are an open domain and are explored with structure: every near-miss word (Hamming distance <= 2 of a card, fragments, flags) in every slot of every size, every duplicated slot pair, all arrangements over a small alphabet, 400k (thorough 5M) weighted proptest hands, and a coverage-guided campaign. Oracle: valid <=> every slot a model card and no two equal.",
    "Trusted: model card recogniser (layout formula); whole-hand space is sampled, not closed.")
add("C05",
    "exhaustive enumeration of all card-or-blank multisets (5,6 slots; 7 slots stratum/all), all 53^5 ordered arrays, all 2^32 keys, call sequences over related hands, in two build profiles at full budget",
    "Totality over the stated alphabet is closed by enumeration in both semantics-relevant build profiles (overflow checks + debug assertions on / off); a five-slot hand with a blank must give 0 and Invalid through every entry point; hands of distinct cards must additionally equal the model.",
    "Trusted: opt-level 0 equivalent to the two opt-level-3 profiles; non-termination is only detectable as a watchdog timeout (exit 2).")
add("C06",
    "exhaustive: all 65,536 values and all enum variants against model-derived class text; all 5-card hands in all 120 slot orders and all 6-card (7-card stratum/all) hands through hand_rank / hand_rank_validated",
    "Every value is converted and its category/class text compared with the text the model builds from the ranks of the poker class with that ordinal; every non-Invalid variant must label one contiguous non-empty range; for every hand the reported rank must equal the conversion of the model's ordinal (so the text describes the actual cards).",
    "Trusted: model class naming (documented spellings Trey/Deuce); variants compared by Debug text.")
add("C07",
    "exhaustive: all 2^32 ordered pairs of converted values against an implementation-derived integer key + stated direction; related pairs converted afresh back to back; all adjacent values for the enums",
    "All 65,536^2 pairs: cmp must agree with the order of an integer key derived from cmp itself (settles transitivity over all triples), with partial_cmp, the four operators, and == ; stated direction checked independently.",
    "Trusted: nothing beyond the statement; direction among invalid ranks deliberately not asserted.")
add("C08",
    "exhaustive metamorphic check: all five-card hands x 24 suit relabellings, all six-card (seven-card stratum/all) hands x 3 shifts, tied to the model ordinal; proptest for the slot-wise clause",
    "Value invariance is checked under every relabelling of the four suits on every five-card hand and under the crate's own shifts on six/seven-card hands, and each value is also tied to the model so a symmetric bug cannot hide; container shifting is compared slot by slot with the model shift on generated hands.",
    "Trusted: model shift (next suit, same rank). For non-card words the container shift is compared with the crate's per-word shift.")
add("C09",
    "exhaustive metamorphic check over all six-card (seven-card stratum/all) subsets with all their sub-hands, values memoised from the crate",
    "Purely relational (no poker oracle): v(n) <= v(sub) for every sub-hand and v(n) = min over sub-hands, all values in 1..=7462.",
    "Trusted: nothing; a consistently wrong evaluator would satisfy the relation, which is why C02 carries the rule-based oracle.")
add("C10",
    "exhaustive: 70 rank/suit pairs, 52 constants, deck, all accessors, all 2^32 words through the filter",
    "Finite domain closed completely against the documented layout formula.",
    "Trusted: the layout formula as documented in the README / lib.rs diagram.")
add("C11",
    "exhaustive card pairs and small-alphabet tuples + proptest arrays of arbitrary words with forced duplicates (shrinking)",
    "Sorting is checked in both directions (non-increasing and same multiset) plus idempotence, in-place agreement and non-mutation of the receiver.",
    "Trusted: std sort as the reference arrangement. Arbitrary arrays sampled.")
add("C12",
    "exhaustive symbol tables and one-sided two-character tokens over all Unicode scalar values, token alphabet squared; sharded proptest texts and arbitrary strings with shrinking under a probed whitespace definition; libFuzzer target (thorough)",
    "Symbol tables closed over every char; first-two-characters rule over an adversarial alphabet squared x tails; hand parsers on generated texts with k<N / k=N tokens; totality on arbitrary strings.",
    "Trusted: whitespace is one of the two standard definitions (probed on the two-card parser, then required uniformly); texts with more tokens than slots only checked for totality.")
add("C13",
    "exhaustive: all five-card hands (canonical + seeded orders) against predicates computed from card fields, and against the rank category",
    "All 2,598,960 hands; includes the 58,824 paired hands whose ranks span five places.",
    "Trusted: model predicates; slot orders sampled (predicates are symmetric bit operations).")
add("C14",
    "exhaustive: all 2^32 words -> bit; all one- and two-bit sets -> word; constants; proptest 64-bit values",
    "Word side closed; set side closed for population counts 0..2 and sampled beyond.",
    "Trusted: bit 51 - deck position convention from the statement.")
add("C15",
    "model-based stateful proptest (histories of set operations vs a u64 model, compared after every step) + exhaustive small hands + peel-to-exhaustion; libFuzzer target (thorough)",
    "Histories of up to 80 operations are run against the model step by step; every generated set is peeled to exhaustion plus three extra peels.",
    "Trusted: u64 set model. Open domain sampled.")
add("C16",
    "exhaustive over all one- and two-bit values + proptest over population counts",
    "The result depends on population count and overflow bits only; all 2,081 boundary values enumerated.",
    "Trusted: statement's error classes.")
add("C17",
    "exhaustive: all 2,652 ordered pairs against an integer half-point model of Chen's formula; all 2,652^2 two-call sequences",
    "Finite domain closed completely; helpers, symmetry and shift invariance included.",
    "Trusted: Chen's published formula as restated in the property.")
add("C18",
    "exhaustive table check against generated combination sets; structured + proptest usize indexes",
    "Every table entry against the full combination set (both directions); all index classes for deck access.",
    "Trusted: combination generator.")
add("C19",
    "model-based stateful proptest (constructor/setter/state-dependent rewrite/selection histories vs an array model) + exhaustive setters, rewrite sequences and selection tuples; libFuzzer target (thorough)",
    "Every setter, constructor and in-range selection tuple enumerated; histories with arbitrary words sampled with a full read-back after every step.",
    "Trusted: array model.")
add("C20",
    "exhaustive: 52 cards x all mark subsets in all call orders x all comparison partners",
    "Finite domain closed completely.",
    "Trusted: flags occupy bits 29-31 as documented.")
