NOTES = ("All checks: ./check <ID> quick|thorough builds the harness against /repo's working tree (build failure => exit 2), "
         "runs replay/regression cases, then generated search against an explicit oracle. Exit 0 held, 1 VIOLATION, 2 cannot decide. "
         "Genuine defects found and repaired are listed in known-findings.txt as 'fixed:' lines (three fix: commits in /repo).")
NOT_YET = {}

add("C01",
    "exhaustive enumeration (all 5-card subsets x 120 slot orders x 6 entry points) against a rule-based poker ordinal model; proptest random pairs for the comparator form",
    "The whole stated domain is enumerated (1.87e9 evaluations, ~6 s): every five-card subset in every slot order through every five-card entry point must return the strength ordinal computed by an independent rule-based model; observed per-value hand counts must equal the model's class sizes (so every value 1..=7462 is produced and equal value <=> tie). Exhaustive exploration is the strongest thing testing can give and the domain is small enough to close the quantifier.",
    "Trusted: the reference model (harness/src/model/poker.rs), self-checked at start-up against the published 7462 classes, per-category class counts and five-card frequencies; that the model's 52 words are the crate's cards (C10).")
