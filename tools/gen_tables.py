#!/usr/bin/env python3
"""Regenerates the result tables of DESIGN.md (between the <!-- BEGIN x --> / <!-- END x --> markers)
from seeded/*/meta.json and tools/mutants/RESULTS.json."""
import glob, json, os, re
ROOT = os.path.dirname(os.path.dirname(os.path.abspath(__file__)))

def seeded_table():
    rows = ["| seeded change | breaks | what it needs to manifest | quick checks that report it (exit 1, seconds incl. build) | quick checks run that stay silent |", "|---|---|---|---|---|"]
    for f in sorted(glob.glob(os.path.join(ROOT, "seeded/*/meta.json"))):
        m = json.load(open(f))
        name = os.path.basename(os.path.dirname(f))
        hit = ", ".join(f"{k} ({v['seconds']} s)" for k, v in m["checks_quick"].items() if v["exit"] == 1)
        miss = ", ".join(k for k, v in m["checks_quick"].items() if v["exit"] != 1) or "–"
        if not hit and m.get("caught_by_thorough"):
            hit = "none in the quick tier; thorough: " + ", ".join(f"{k} ({v['seconds']} s)" for k, v in m["checks_thorough"].items() if v["exit"] == 1)
        rows.append(f"| {name} | {m['breaks_property']} | {m['needs_to_manifest']} | {hit or '**none**'} | {miss} |")
    return "\n".join(rows)

EQUIVALENT = {
    "C01-find_in_products_low_start_1": "equivalent: the only key at index 0 (48 = 2-2-2-2-3) is 'not found' -> index 0 -> still the right entry",
    "C01-five_cards_sorted_dedup": "equivalent: evaluation is order-independent, sorting first changes nothing",
    "C05-unique_bound_other_way": "equivalent on the domain: OR-ed rank bits of cards/blanks never exceed 7936",
}

def mutant_table():
    p = os.path.join(ROOT, "tools/mutants/RESULTS.json")
    if not os.path.exists(p):
        return "(not run yet)"
    r = json.load(open(p))
    rows = ["| mutant (tools/mutants/*.diff) | repository suite | ./check quick | first report |", "|---|---|---|---|"]
    for k in sorted(r):
        v = r[k]
        suite = "passes" if v.get("suite_failed_tests") == 0 else (f"{v.get('suite_failed_tests')} tests fail" if "suite_failed_tests" in v else v["status"])
        rep = (v.get("report") or [""])[-1].replace("|", "\\|")[:160]
        status = v["status"]
        if status == "MISSED" and k in EQUIVALENT:
            status = "not reported — " + EQUIVALENT[k]
        rows.append(f"| {k} | {suite} | {status} ({v.get('seconds','-')} s) | {rep} |")
    return "\n".join(rows)

def budgets_table():
    rows = ["| property | generator (quick tier, primary profile) | cases | complete |", "|---|---|---|---|"]
    for f in sorted(glob.glob(os.path.join(ROOT, "evidence/C*.json"))):
        e = json.load(open(f))
        pid = e["property_id"]
        for g in e["coverage"].get("generators", []):
            if g.get("profile") == "unchecked" or "@" in g.get("name", ""):
                continue
            comp = {True: "yes", False: "no", None: "–"}[g.get("complete")]
            rows.append(f"| {pid} | {g['name']} | {g.get('cases', 0):,} | {comp} |")
        rows.append(f"| {pid} | *total incl. second profile: {e['coverage']['evaluations']:,} evaluations, {e['coverage']['distinct_nontrivial']:,} distinct non-trivial, {e['wall_s']} s* | | |")
    return "\n".join(rows)

def main():
    p = os.path.join(ROOT, "DESIGN.md")
    s = open(p).read()
    for key, fn in (("SEEDED", seeded_table), ("MUTANTS", mutant_table), ("BUDGETS", budgets_table)):
        a, b = f"<!-- BEGIN {key} -->", f"<!-- END {key} -->"
        if a in s and b in s:
            s = s[: s.index(a) + len(a)] + "\n" + fn() + "\n" + s[s.index(b):]
    open(p, "w").write(s)
    print("tables regenerated")

if __name__ == "__main__":
    main()
